#!/bin/bash
# usage: confirm_benign.sh <worktree> <dest-name>
# Confirms a behaviour-preserving refactoring produced by a sub-agent: the patch applies to a clean tree, the pinned
# suite passes with it, and the parallel feature still builds.  Stores it under /verif/benign/<name>/.
set -u
WT="$1"; NAME="$2"
OUT="$WT/benign_out"; DEST="/verif/benign/$NAME"
cd "$WT" || exit 2
[ -f "$OUT/patch.diff" ] || { echo "no patch"; exit 2; }
git checkout -q -- src crates/macro/src 2>/dev/null
git apply "$OUT/patch.diff" || { echo "patch does not apply"; exit 2; }
cargo test --workspace --offline --exclude walrus-fuzz-utils >/tmp/_bsuite_$NAME.log 2>&1; S1=$?
grep -E "^test result" /tmp/_bsuite_$NAME.log | awk '{p+=$4; f+=$6} END {print "passed",p,"failed",f}'
cargo check --offline -q -p walrus --features parallel >/tmp/_bpar_$NAME.log 2>&1; S2=$?
echo "suite_exit=$S1 parallel_build_exit=$S2"
if [ $S1 -eq 0 ] && [ $S2 -eq 0 ]; then
  mkdir -p "$DEST"; cp "$OUT/patch.diff" "$DEST/patch.diff"; cp "$OUT/meta.json" "$DEST/meta.json" 2>/dev/null
  echo CONFIRMED "$DEST"
else
  echo NOT-CONFIRMED
fi
