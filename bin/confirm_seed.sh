#!/bin/bash
# usage: confirm_seed.sh <worktree> <dest-name>
# Confirms a seeded change produced by a sub-agent in its scratch worktree:
#  (1) suite passes with change (demo moved aside), (2) demo fails with change, (3) demo passes without.
set -u
WT="$1"; NAME="$2"
OUT="$WT/seeded_out"; DEST="/verif/seeded/$NAME"
cd "$WT" || exit 2
[ -f "$OUT/patch.diff" ] || { echo "no patch"; exit 2; }
DEMO=crates/tests/tests/seeded_demo.rs
cp "$OUT/seeded_demo.rs" /tmp/_demo_$NAME.rs
# normalise: start from clean src, apply patch
git checkout -q -- src crates/macro/src 2>/dev/null
rm -f $DEMO
git apply "$OUT/patch.diff" || { echo "patch does not apply"; exit 2; }
echo "== suite with change"
cargo test --workspace --offline --exclude walrus-fuzz-utils >/tmp/_suite_$NAME.log 2>&1; S1=$?
grep -E "^test result" /tmp/_suite_$NAME.log | awk '{p+=$4; f+=$6} END {print "passed",p,"failed",f}'
cp /tmp/_demo_$NAME.rs $DEMO
echo "== demo with change"
cargo test -p walrus-tests --offline --test seeded_demo ${DEMO_FEATURES:-} >/tmp/_demo1_$NAME.log 2>&1; S2=$?
grep -E "^test result|panicked" /tmp/_demo1_$NAME.log | head -5
git apply -R "$OUT/patch.diff"
echo "== demo without change"
cargo test -p walrus-tests --offline --test seeded_demo ${DEMO_FEATURES:-} >/tmp/_demo2_$NAME.log 2>&1; S3=$?
grep -E "^test result" /tmp/_demo2_$NAME.log | head -3
echo "suite_with_change_exit=$S1 demo_with_change_exit=$S2 demo_without_exit=$S3"
if [ $S1 -eq 0 ] && [ $S2 -ne 0 ] && [ $S3 -eq 0 ]; then
  mkdir -p "$DEST"; cp "$OUT/patch.diff" "$DEST/patch.diff"; cp /tmp/_demo_$NAME.rs "$DEST/seeded_demo.rs"
  python3 - "$OUT/meta.json" "$DEST/meta.json" "$S1" "$S2" "$S3" <<'PY'
import json,sys
try: m=json.load(open(sys.argv[1]))
except Exception as e: m={"note":"agent meta unreadable: %s"%e}
m["confirmed_by_main"]={"ran":["cargo test --workspace --offline --exclude walrus-fuzz-utils (change applied, demo aside)","cargo test -p walrus-tests --offline --test seeded_demo (change applied)","same, change reverted"],"suite_with_change_exit":int(sys.argv[3]),"demo_with_change_exit":int(sys.argv[4]),"demo_without_change_exit":int(sys.argv[5])}
json.dump(m,open(sys.argv[2],"w"),indent=1)
PY
  echo CONFIRMED "$DEST"
else
  echo NOT-CONFIRMED
fi
