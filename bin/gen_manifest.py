#!/usr/bin/env python3
"""Regenerate /verif/MANIFEST.json from rules/registry.py (claimed properties) and NOT_APPLICABLE below."""
import json
import os
import sys

HERE = os.path.dirname(os.path.dirname(os.path.abspath(__file__)))
sys.path.insert(0, os.path.join(HERE, 'rules'))
import registry  # noqa

NOT_APPLICABLE = {
    # filled as properties are decided; anything not claimed and not listed gets the pending text
}

LEVEL_TEXT = {
    'default': 'Static analysis of the resolved program (rustc_private driver + term evaluator): every rule instance '
               'listed in the evidence is decided on /repo\'s current source on every run; a violation names the operator, '
               'field, position or call site. This decides the structural clauses named in level_note, not the runtime '
               'behaviour as a whole.',
}


def main():
    props = [json.loads(l) for l in open(os.path.join(HERE, 'properties.jsonl'))]
    checks = []
    na = []
    for p in props:
        pid = p['id']
        spec = registry.PROPERTIES.get(pid)
        if spec is None:
            na.append({'property_id': pid,
                       'reason': NOT_APPLICABLE.get(pid, 'check not built yet (work in progress; see DESIGN.md section 4 for the planned rules)')})
            continue
        checks.append({
            'property_id': pid,
            'quick_cmd': './check %s --tier quick' % pid,
            'thorough_cmd': './check %s --tier thorough' % pid,
            'evidence_file': 'evidence/%s.json' % pid,
            'replay_cmd_template': './check %s --replay {path}' % pid,
            'engine': 'wlint+rules',
            'level_claimed': {
                'category': 'other',
                'text': LEVEL_TEXT['default'] + ' Rules: ' + ', '.join(spec['rules']) + '. ' + spec['explanation'],
                'design_ref': 'DESIGN.md section 4 (%s) and section 3 (rule catalogue)' % pid,
            },
            'level_note': 'Decided: ' + spec['explanation'][:400] + ' | Not decided: ' + (spec.get('not_decided') or '-') +
                          ' | Trusted: rustc name resolution/typeck/MIR; wasmparser & wasm-encoder 0.214 semantics of same-named '
                          'variants/fields; the std-combinator model of the term evaluator.',
            'technique': spec.get('technique', 'static analysis: symbolic evaluation of resolved HIR (constructor-term abstract '
                                               'interpretation) + MIR/call-graph rules, compared with oracle tables from the '
                                               'vendored wasm-tools sources'),
        })
    m = {
        'version': 1,
        'setup_cmd': 'bash bin/setup.sh',
        'hooks': {
            'guard': 'walrus_verif',
            'enable': 'none needed: the analysis reads the source through a rustc_private driver (RUSTC_WORKSPACE_WRAPPER); '
                      'no hook is compiled into /repo',
            'baseline_off_cmd': 'cd /repo && cargo test --workspace --no-fail-fast --offline --exclude walrus-fuzz-utils',
            'source_commits': [],
            'add_only': True,
        },
        'engines': [
            {'name': 'wlint', 'path': 'engine/wlint', 'serves_properties': sorted(registry.PROPERTIES),
             'kind_free_text': 'rustc_private driver (nightly) dumping the resolved program: ADT inventory, typed+resolved HIR, '
                               'MIR CFGs with resolved callees, instance-level call graph'},
            {'name': 'rules', 'path': 'rules', 'serves_properties': sorted(registry.PROPERTIES),
             'kind_free_text': 'python3 (stdlib only): term evaluator over HIR (heval.py), CFG/dominator library (cfg.py), oracle '
                               'extraction from vendored wasmparser/wasm-encoder sources (oracle.py), one module per rule'},
        ],
        'checks': checks,
        'notes': 'Static analysis only. exit 0 = held; exit 1 + VIOLATION line = violation; exit 2 = analysis error (anchor lost / '
                 'tree does not build) - never used for violations. Known findings: known_findings.json. Seeded changes used to '
                 'test the checks: seeded/.',
        'not_applicable': na,
    }
    json.dump(m, open(os.path.join(HERE, 'MANIFEST.json'), 'w'), indent=1)
    print('claimed', len(checks), 'not_applicable', len(na))


if __name__ == '__main__':
    main()
