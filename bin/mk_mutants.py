#!/usr/bin/env python3
"""Generate mutants/<name>.diff from mutants/specs.py against /repo's current HEAD.

Each spec is a textual substitution (old -> new) in one file; the generated diff is what
bin/selftest.py applies to its scratch copy.  A spec whose `old` text no longer occurs exactly
`n` times (default 1) is reported and skipped, so the table is kept honest when the tree moves.
usage: mk_mutants.py [--check-build] [--suite]   (--suite also runs the pinned suite on every mutant, slow)"""
import os
import subprocess
import sys
import tempfile
import shutil
import json

HERE = os.path.dirname(os.path.dirname(os.path.abspath(__file__)))
sys.path.insert(0, os.path.join(HERE, 'mutants'))


def main():
    import specs
    scratch = tempfile.mkdtemp(prefix='walrus-mut-')
    repo = os.path.join(scratch, 'repo')
    subprocess.check_call(['rsync', '-a', '--exclude', 'target', '--exclude', '.git', '/repo/', repo + '/'])
    subprocess.check_call(['git', 'init', '-q'], cwd=repo)
    subprocess.check_call('git add -A && git -c user.name=x -c user.email=x@x commit -qm base', shell=True, cwd=repo)
    suite = '--suite' in sys.argv
    build = '--check-build' in sys.argv or suite
    status = {}
    stat_path = os.path.join(HERE, 'mutants', 'status.json')
    if os.path.exists(stat_path):
        status = json.load(open(stat_path))
    bad = 0
    try:
        for s in specs.SPECS:
            name = s['name']
            subprocess.check_call(['git', 'checkout', '-q', '--', '.'], cwd=repo)
            ok = True
            for ed in s['edits']:
                p = os.path.join(repo, ed['file'])
                txt = open(p).read()
                n = txt.count(ed['old'])
                if n != ed.get('n', 1):
                    print('SPEC-STALE %s: %r occurs %d times in %s (expected %d)' % (name, ed['old'][:60], n, ed['file'], ed.get('n', 1)))
                    ok = False
                    break
                if ed.get('which') is not None:
                    parts = txt.split(ed['old'])
                    k = ed['which']
                    txt = ed['old'].join(parts[:k + 1]) + ed['new'] + ed['old'].join(parts[k + 1:])
                else:
                    txt = txt.replace(ed['old'], ed['new'])
                open(p, 'w').write(txt)
            if not ok:
                bad += 1
                continue
            d = subprocess.run(['git', 'diff'], cwd=repo, capture_output=True, text=True).stdout
            out = os.path.join(HERE, 'mutants', '%s.diff' % name)
            old = open(out).read() if os.path.exists(out) else None
            open(out, 'w').write(d)
            st = status.setdefault(name, {})
            if build and (old != d or 'builds' not in st):
                env = dict(os.environ, CARGO_TARGET_DIR=os.path.join(scratch, 'target'), CARGO_NET_OFFLINE='true')
                r = subprocess.run(['cargo', 'check', '--offline', '-q', '-p', 'walrus', '--all-features'], cwd=repo, env=env,
                                   capture_output=True, text=True)
                st['builds'] = (r.returncode == 0)
                if r.returncode != 0:
                    print('DOES-NOT-BUILD %s\n%s' % (name, r.stderr[-800:]))
                    bad += 1
            if suite and st.get('builds') and (old != d or 'suite' not in st):
                env = dict(os.environ, CARGO_TARGET_DIR=os.path.join(scratch, 'target'), CARGO_NET_OFFLINE='true')
                r = subprocess.run('cargo test --workspace --offline --exclude walrus-fuzz-utils 2>&1 | tail -30', shell=True,
                                   cwd=repo, env=env, capture_output=True, text=True)
                passed = 'FAILED' not in r.stdout and 'error' not in r.stdout.split('\n')[-2:]
                r2 = subprocess.run('cargo test --workspace --offline --exclude walrus-fuzz-utils >/dev/null 2>&1', shell=True,
                                    cwd=repo, env=env)
                st['suite'] = 'pass' if r2.returncode == 0 else 'fail'
            print('%-40s %s %s' % (name, st.get('builds', '?'), st.get('suite', '')))
    finally:
        shutil.rmtree(scratch, ignore_errors=True)
    json.dump(status, open(stat_path, 'w'), indent=1, sort_keys=True)
    sys.exit(1 if bad else 0)


if __name__ == '__main__':
    main()
