ALL = ['C%02d' % i for i in range(1, 21)]
