#!/bin/bash
# usage: run_wlint.sh <repo-dir> <out-dir> [cargo feature args...]
# Runs `cargo +nightly check -p walrus` on <repo-dir> with the wlint driver as
# workspace wrapper and writes the fact base into <out-dir>.
set -euo pipefail
REPO="$1"; OUT="$2"; shift 2
HERE="$(cd "$(dirname "$0")/.." && pwd)"
DRV="$HERE/engine/wlint/target/release/wlint"
[ -x "$DRV" ] || { echo "wlint driver not built (run setup)" >&2; exit 2; }
SYSROOT="$(rustc +nightly --print sysroot)"
CFGKEY="$(echo "default $*" | tr -c 'A-Za-z0-9\n' '_')"
TGT="${WLINT_TARGET_DIR:-$HERE/.cache/target-$CFGKEY}"
mkdir -p "$TGT" "$OUT"
rm -f "$OUT"/*.json
# force the walrus crate itself to be re-checked (cargo would otherwise replay
# a cached result without invoking the wrapper)
find "$TGT" -path '*/.fingerprint/walrus-*' -prune -exec rm -rf {} + 2>/dev/null || true
cd "$REPO"
LD_LIBRARY_PATH="$SYSROOT/lib" \
RUSTFLAGS="-Zmir-opt-level=0 -Awarnings" \
RUSTC_WORKSPACE_WRAPPER="$DRV" \
WLINT_OUT="$OUT" WLINT_CRATE=walrus \
CARGO_NET_OFFLINE=true CARGO_TARGET_DIR="$TGT" \
cargo +nightly check --offline -p walrus --lib "$@" >"$OUT/cargo.log" 2>&1 || { cat "$OUT/cargo.log" >&2; exit 2; }
[ -s "$OUT/meta.json" ] || { echo "wlint produced no facts" >&2; cat "$OUT/cargo.log" >&2; exit 2; }
