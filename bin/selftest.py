#!/usr/bin/env python3
"""Checker self-test (E4): apply every seeded change (seeded/*/patch.diff, seeded/_reverted_fixes/*.diff,
mutants/*.diff) to a scratch copy of /repo OUTSIDE /repo and /verif, run the check of the property the
change breaks, and require exit code 1 with a VIOLATION line.  Also runs every claimed check on the
unchanged tree and requires exit 0.  Prints a table; exit 0 iff everything is as expected.
usage: selftest.py [--only NAME ...] [--keep]"""
import json
import os
import subprocess
import sys
import shutil
import glob
import tempfile

HERE = os.path.dirname(os.path.dirname(os.path.abspath(__file__)))
REVERTED = {'D1-customs-not-restored': ['C12', 'C08'], 'D2-imported-memory64': ['C04'], 'D3-memarg-offset': ['C03'],
            'D4-rmw8': ['C03'], 'D5-externref-elems': ['C06'], 'D6-visitmut-double': ['C16'], 'D7-local-names-dropped': ['C13'],
            'D8-code-section-start': ['C11'], 'D9-dwarf5-file0': ['C10'], 'D11-ops-after-final-end': ['C05'],
            'D12-ref-func-undeclared': ['C06', 'C02']}


def cases():
    out = []
    for d in sorted(glob.glob(os.path.join(HERE, 'seeded', '*'))):
        name = os.path.basename(d)
        if name.startswith('_'):
            continue
        p = os.path.join(d, 'patch.diff')
        if not os.path.exists(p):
            continue
        props = []
        try:
            m = json.load(open(os.path.join(d, 'meta.json')))
            props = m.get('detected_by_properties') or [m.get('property')]
        except Exception:
            props = [name.split('-')[0]]
        out.append((name, p, [x for x in props if x]))
    for p in sorted(glob.glob(os.path.join(HERE, 'seeded', '_reverted_fixes', '*.diff'))):
        name = os.path.basename(p)[:-5]
        out.append(('revert-' + name, p, REVERTED.get(name, [])))
    mprops = {}
    try:
        sys.path.insert(0, os.path.join(HERE, 'mutants'))
        sys.path.insert(0, os.path.join(HERE, 'bin'))
        import specs
        mprops = {s['name']: s['props'] for s in specs.SPECS}
    except Exception:
        pass
    for p in sorted(glob.glob(os.path.join(HERE, 'mutants', '*.diff'))):
        name = os.path.basename(p)[:-5]
        out.append(('mutant-' + name, p, mprops.get(name) or [name.split('-')[0]]))
    # behaviour-preserving refactorings: every check must stay silent (exit 0)
    import registry_props
    for d in sorted(glob.glob(os.path.join(HERE, 'benign', '*'))):
        p = os.path.join(d, 'patch.diff')
        if os.path.exists(p):
            out.append(('benign-' + os.path.basename(d), p, registry_props.ALL))
    return out


def worker(args):
    idx, todo, keep = args
    scratch = tempfile.mkdtemp(prefix='walrus-selftest-')
    repo = os.path.join(scratch, 'repo')
    subprocess.check_call(['rsync', '-a', '--exclude', 'target', '--exclude', '.git', os.environ.get('VERIF_REPO', '/repo').rstrip('/') + '/', repo + '/'])
    subprocess.check_call(['git', 'init', '-q'], cwd=repo)
    subprocess.check_call('git add -A && git -c user.name=x -c user.email=x@x commit -qm base', shell=True, cwd=repo)
    env = dict(os.environ, VERIF_REPO=repo, VERIF_EVIDENCE_DIR=os.path.join(scratch, 'evidence'))
    rows = []
    try:
        for name, patch, props in todo:
            subprocess.check_call(['git', 'checkout', '-q', '--', '.'], cwd=repo)
            r = subprocess.run(['git', 'apply', patch], cwd=repo, capture_output=True, text=True)
            if r.returncode != 0:
                rows.append((name, '-', 'SKIPPED (patch does not apply to the current tree)', 0))
                continue
            for prop in props:
                r = subprocess.run([os.path.join(HERE, 'check'), prop], cwd=HERE, env=env, capture_output=True, text=True)
                keys = [l.split('key=')[1].strip() for l in r.stdout.splitlines() if 'key=' in l]
                if name.startswith('benign-'):
                    if r.returncode == 0 and 'VIOLATION' not in r.stdout:
                        rows.append((name, prop, 'SILENT', 0))
                    elif r.returncode == 1:
                        rows.append((name, prop, 'FALSE-ALARM ' + '; '.join(keys[:3])[:200], 1))
                    else:
                        rows.append((name, prop, 'ANALYSIS-ERROR (exit %d): ' % r.returncode
                                     + ' | '.join(l for l in r.stdout.splitlines() if 'ANALYSIS' in l)[:200], 1))
                    continue
                if r.returncode == 1 and 'VIOLATION' in r.stdout:
                    rows.append((name, prop, 'DETECTED ' + '; '.join(keys[:2])[:150], 0, keys))
                elif r.returncode == 2:
                    rows.append((name, prop, 'ANALYSIS-ERROR (exit 2): ' + ' | '.join(l for l in r.stdout.splitlines() if 'ANALYSIS' in l)[:150], 1))
                else:
                    rows.append((name, prop, 'MISSED (exit %d)' % r.returncode, 1))
    finally:
        if not keep:
            shutil.rmtree(scratch, ignore_errors=True)
    return rows


def main():
    only = []
    args = sys.argv[1:]
    if '--only' in args:
        only = args[args.index('--only') + 1:]
    only = [o for o in only if o != '--keep']
    jobs = 6
    if '-j' in args:
        jobs = int(args[args.index('-j') + 1])
        only = [o for o in only if o not in ('-j', str(jobs))]
    prop = None
    if '--prop' in args:
        prop = args[args.index('--prop') + 1]
        only = [o for o in only if o not in ('--prop', prop)]
    jout = None
    if '--json' in args:
        jout = args[args.index('--json') + 1]
        only = [o for o in only if o not in ('--json', jout)]
    todo = [c for c in cases() if not only or any(o in c[0] for o in only)]
    if prop:
        todo = [(n, p, [prop]) for n, p, props in todo if prop in props and not n.startswith('benign-')]
    jobs = max(1, min(jobs, len(todo)))
    from multiprocessing.pool import ThreadPool
    chunks = [(k, todo[k::jobs], '--keep' in args) for k in range(jobs)]
    rows4 = []
    for rs in ThreadPool(jobs).map(worker, chunks):
        rows4 += rs
    rows4.sort()
    rows = [r[:3] for r in rows4]
    bad = sum(r[3] for r in rows4)
    w = max(len(r[0]) for r in rows) if rows else 10
    for n, p, s in rows:
        print('%-*s %-4s %s' % (w, n, p, s))
    if jout:
        json.dump([{'case': r[0], 'property': r[1], 'result': r[2], 'keys': (r[4] if len(r) > 4 else [])} for r in rows4], open(jout, 'w'), indent=1)
    print('selftest: %d case/property pairs, %d not as expected' % (len(rows), bad))
    sys.exit(1 if bad else 0)


if __name__ == '__main__':
    main()
