#!/bin/bash
# Build the wlint driver (rustc_private, nightly toolchain, no cargo dependencies) - offline.
set -euo pipefail
HERE="$(cd "$(dirname "$0")/.." && pwd)"
cd "$HERE/engine/wlint"
CARGO_NET_OFFLINE=true cargo +nightly build --release --offline 2>&1 | tail -3
test -x target/release/wlint
mkdir -p "$HERE/.cache" "$HERE/evidence"
echo "setup ok"
