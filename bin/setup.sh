#!/bin/bash
# Build the wlint driver (rustc_private, nightly toolchain, no cargo dependencies) - offline.
set -euo pipefail
HERE="$(cd "$(dirname "$0")/.." && pwd)"
cd "$HERE/engine/wlint"
CARGO_NET_OFFLINE=true cargo +nightly build --release --offline 2>&1 | tail -3
test -x target/release/wlint
mkdir -p "$HERE/.cache" "$HERE/evidence"
echo "setup ok"
# warm the dependency artifacts of both cargo configurations so that the first check is not a cold build
for cfg in "" "--features parallel"; do
  OUT="$(mktemp -d)"
  bash "$HERE/bin/run_wlint.sh" /repo "$OUT" $cfg >/dev/null 2>&1 || true
  rm -rf "$OUT"
done
echo "caches warm"
