#!/bin/bash
# usage: try_patch.sh <patch.diff> <property ids...>   -- apply to /repo, run checks, ALWAYS revert
P="$1"; shift
cd /repo || exit 2
if ! git diff --quiet; then echo "/repo has uncommitted changes; refusing"; exit 2; fi
git apply "$P" || { echo "patch does not apply"; exit 2; }
trap 'git -C /repo checkout -- . ' EXIT
cd /verif
for p in "$@"; do ./check "$p" ${TIER:+--tier $TIER} 2>&1 | grep -E "VIOLATION|key=|ANALYSIS-ERROR|KNOWN|obligations" | cut -c1-${WIDTH:-300}; done
