//! ADT inventory: every struct/enum of the local crate, plus the public ADTs
//! of the wasm-tools crates walrus converts from/to (the oracle side).
use crate::json::J;
use crate::util::path;
use rustc_hir::def::{DefKind, Res};
use rustc_hir::def_id::{DefId, LOCAL_CRATE};
use rustc_middle::ty::TyCtxt;
use std::collections::HashSet;

const FOREIGN: &[&str] = &["wasmparser", "wasm_encoder", "id_arena"];

pub fn dump(tcx: TyCtxt<'_>) -> J {
    let mut out = vec![];
    let mut seen: HashSet<DefId> = HashSet::new();
    for ldid in tcx.hir_crate_items(()).definitions() {
        let did = ldid.to_def_id();
        if matches!(tcx.def_kind(did), DefKind::Struct | DefKind::Enum | DefKind::Union) {
            if seen.insert(did) {
                out.push(dump_adt(tcx, did, true));
            }
        }
    }
    for &cnum in tcx.crates(()) {
        let name = tcx.crate_name(cnum).to_string();
        if !FOREIGN.contains(&name.as_str()) {
            continue;
        }
        let root = cnum.as_def_id();
        let mut stack = vec![root];
        let mut seen_mod: HashSet<DefId> = HashSet::new();
        while let Some(m) = stack.pop() {
            if !seen_mod.insert(m) {
                continue;
            }
            for child in tcx.module_children(m) {
                if let Res::Def(kind, did) = child.res {
                    if did.krate == LOCAL_CRATE {
                        continue;
                    }
                    match kind {
                        DefKind::Mod => stack.push(did),
                        DefKind::Struct | DefKind::Enum | DefKind::Union => {
                            let cn = tcx.crate_name(did.krate).to_string();
                            if FOREIGN.contains(&cn.as_str()) && seen.insert(did) {
                                out.push(dump_adt(tcx, did, false));
                            }
                        }
                        _ => {}
                    }
                }
            }
        }
    }
    J::Arr(out)
}

fn dump_adt(tcx: TyCtxt<'_>, did: DefId, local: bool) -> J {
    let adt = tcx.adt_def(did);
    let mut variants = vec![];
    for v in adt.variants().iter() {
        let mut fields = vec![];
        for f in v.fields.iter() {
            let ty = tcx.type_of(f.did).instantiate_identity().skip_norm_wip();
            fields.push(obj! {
                "name": J::s(f.name.to_string()),
                "ty": J::s(ty.to_string()),
                "vis": J::s(format!("{:?}", f.vis)),
            });
        }
        variants.push(obj! {
            "name": J::s(v.name.to_string()),
            "ctor": J::s(format!("{:?}", v.ctor_kind())),
            "fields": J::Arr(fields),
        });
    }
    obj! {
        "path": J::s(path(tcx, did)),
        "krate": J::s(tcx.crate_name(did.krate).to_string()),
        "kind": J::s(if adt.is_enum() { "enum" } else if adt.is_union() { "union" } else { "struct" }),
        "local": J::Bool(local),
        "vis": J::s(format!("{:?}", tcx.visibility(did))),
        "variants": J::Arr(variants),
    }
}
