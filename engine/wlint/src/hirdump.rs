//! Typed, name-resolved HIR of every function body as a JSON tree.
use crate::json::J;
use crate::util::{mac_chain, opt_s, path, sp};
use rustc_ast::LitKind;
use rustc_hir as hir;
use rustc_hir::def::{CtorOf, DefKind, Res};
use rustc_hir::def_id::{DefId, LocalDefId};
use rustc_middle::ty::{TyCtxt, TypeckResults};
use rustc_span::Span;

struct Cx<'tcx> {
    tcx: TyCtxt<'tcx>,
    tr: &'tcx TypeckResults<'tcx>,
}

pub fn dump(tcx: TyCtxt<'_>) -> J {
    let mut out = vec![];
    for ldid in tcx.hir_body_owners() {
        let kind = tcx.def_kind(ldid.to_def_id());
        if matches!(kind, DefKind::Const { .. } | DefKind::AssocConst { .. } | DefKind::Static { .. }) {
            // initialiser of a constant: lets the evaluator see through `const PREFIX: &str = "..."`
            let mut j = dump_fn(tcx, ldid);
            if let J::Obj(ref mut v) = j {
                v.push(("item", J::s("const")));
            }
            out.push(j);
            continue;
        }
        if !matches!(kind, DefKind::Fn | DefKind::AssocFn) {
            continue;
        }
        out.push(dump_fn(tcx, ldid));
    }
    J::Arr(out)
}

fn dump_fn(tcx: TyCtxt<'_>, ldid: LocalDefId) -> J {
    let body = tcx.hir_body_owned_by(ldid);
    let tr = tcx.typeck(ldid);
    let cx = Cx { tcx, tr };
    let params: Vec<J> = body.params.iter().map(|p| cx.pat(p.pat)).collect();
    let span = tcx.def_span(ldid.to_def_id());
    obj! {
        "path": J::s(path(tcx, ldid.to_def_id())),
        "sp": J::s(sp(tcx, span)),
        "mac": opt_s(mac_chain(span)),
        "params": J::Arr(params),
        "body": cx.expr(body.value),
    }
}

fn line(tcx: TyCtxt<'_>, span: Span) -> J {
    let span = span.source_callsite();
    if span.is_dummy() {
        return J::Null;
    }
    let loc = tcx.sess.source_map().lookup_char_pos(span.lo());
    J::Num(loc.line as i128)
}

impl<'tcx> Cx<'tcx> {
    fn res_info(&self, res: Res) -> Vec<(&'static str, J)> {
        let tcx = self.tcx;
        let mut v: Vec<(&'static str, J)> = vec![];
        match res {
            Res::Local(hid) => {
                v.push(("res", J::s("local")));
                v.push(("id", J::Num(hid.local_id.as_u32() as i128)));
                v.push(("name", J::s(tcx.hir_name(hid).to_string())));
            }
            Res::Def(kind, did) => {
                v.push(("res", J::s(format!("{:?}", kind))));
                v.push(("def", J::s(path(tcx, did))));
                if let Some((adt, variant)) = self.adt_variant(kind, did) {
                    v.push(("adt", J::s(adt)));
                    v.push(("variant", J::s(variant)));
                }
            }
            Res::SelfCtor(did) | Res::SelfTyAlias { alias_to: did, .. } => {
                v.push(("res", J::s("SelfTy")));
                let ty = tcx.type_of(did).instantiate_identity().skip_norm_wip();
                if let Some(adt) = ty.ty_adt_def() {
                    v.push(("adt", J::s(path(tcx, adt.did()))));
                    if adt.is_struct() {
                        v.push(("variant", J::s(adt.non_enum_variant().name.to_string())));
                    }
                }
            }
            Res::PrimTy(p) => {
                v.push(("res", J::s("PrimTy")));
                v.push(("def", J::s(p.name_str())));
            }
            other => {
                v.push(("res", J::s(format!("{:?}", other))));
            }
        }
        v
    }

    fn adt_variant(&self, kind: DefKind, did: DefId) -> Option<(String, String)> {
        let tcx = self.tcx;
        match kind {
            DefKind::Ctor(CtorOf::Variant, _) => {
                let vdid = tcx.parent(did);
                let adt = tcx.parent(vdid);
                Some((path(tcx, adt), tcx.item_name(vdid).to_string()))
            }
            DefKind::Ctor(CtorOf::Struct, _) => {
                let adt = tcx.parent(did);
                Some((path(tcx, adt), tcx.item_name(adt).to_string()))
            }
            DefKind::Variant => {
                let adt = tcx.parent(did);
                Some((path(tcx, adt), tcx.item_name(did).to_string()))
            }
            DefKind::Struct | DefKind::Union => {
                Some((path(tcx, did), tcx.item_name(did).to_string()))
            }
            _ => None,
        }
    }

    fn qpath(&self, qp: &hir::QPath<'tcx>, hid: hir::HirId) -> Vec<(&'static str, J)> {
        let res = self.tr.qpath_res(qp, hid);
        let mut v = self.res_info(res);
        if let Some(args) = self.tr.node_args_opt(hid) {
            if !args.is_empty() {
                v.push(("gargs", J::Arr(args.iter().map(|a| J::s(a.to_string())).collect())));
            }
        }
        v
    }

    fn lit(&self, lit: &hir::Lit, negated: bool) -> Vec<(&'static str, J)> {
        let mut v: Vec<(&'static str, J)> = vec![];
        match lit.node {
            LitKind::Int(n, _) => {
                let n = n.get() as i128;
                v.push(("lk", J::s("int")));
                v.push(("v", J::Num(if negated { -n } else { n })));
            }
            LitKind::Bool(b) => {
                v.push(("lk", J::s("bool")));
                v.push(("v", J::Bool(b)));
            }
            LitKind::Str(s, _) => {
                v.push(("lk", J::s("str")));
                v.push(("v", J::s(s.to_string())));
            }
            LitKind::Char(c) => {
                v.push(("lk", J::s("char")));
                v.push(("v", J::s(c.to_string())));
            }
            LitKind::Byte(b) => {
                v.push(("lk", J::s("int")));
                v.push(("v", J::Num(b as i128)));
            }
            LitKind::Float(s, _) => {
                v.push(("lk", J::s("float")));
                v.push(("v", J::s(format!("{}{}", if negated { "-" } else { "" }, s))));
            }
            _ => {
                v.push(("lk", J::s("other")));
            }
        }
        v
    }

    fn pat(&self, p: &hir::Pat<'tcx>) -> J {
        let mut v: Vec<(&'static str, J)> = vec![];
        let k;
        match &p.kind {
            hir::PatKind::Wild | hir::PatKind::Missing => k = "Wild",
            hir::PatKind::Binding(mode, hid, ident, sub) => {
                k = "Bind";
                v.push(("name", J::s(ident.name.to_string())));
                v.push(("id", J::Num(hid.local_id.as_u32() as i128)));
                v.push(("mode", J::s(format!("{:?}", mode))));
                if let Some(s) = sub {
                    v.push(("sub", self.pat(s)));
                }
            }
            hir::PatKind::Struct(qp, fields, rest) => {
                k = "Struct";
                v.extend(self.qpath(qp, p.hir_id));
                let fs: Vec<J> = fields
                    .iter()
                    .map(|f| {
                        obj! { "name": J::s(f.ident.name.to_string()), "p": self.pat(f.pat) }
                    })
                    .collect();
                v.push(("fields", J::Arr(fs)));
                v.push(("rest", J::Bool(rest.is_some())));
            }
            hir::PatKind::TupleStruct(qp, pats, ddpos) => {
                k = "TupleStruct";
                v.extend(self.qpath(qp, p.hir_id));
                v.push(("pats", J::Arr(pats.iter().map(|x| self.pat(x)).collect())));
                if let Some(pos) = ddpos.as_opt_usize() {
                    v.push(("ddpos", J::Num(pos as i128)));
                }
            }
            hir::PatKind::Or(pats) => {
                k = "Or";
                v.push(("pats", J::Arr(pats.iter().map(|x| self.pat(x)).collect())));
            }
            hir::PatKind::Tuple(pats, ddpos) => {
                k = "Tuple";
                v.push(("pats", J::Arr(pats.iter().map(|x| self.pat(x)).collect())));
                if let Some(pos) = ddpos.as_opt_usize() {
                    v.push(("ddpos", J::Num(pos as i128)));
                }
            }
            hir::PatKind::Box(x) | hir::PatKind::Deref(x) => {
                k = "Deref";
                v.push(("p", self.pat(x)));
            }
            hir::PatKind::Ref(x, _, _) => {
                k = "Ref";
                v.push(("p", self.pat(x)));
            }
            hir::PatKind::Expr(pe) => match &pe.kind {
                hir::PatExprKind::Lit { lit, negated } => {
                    k = "Lit";
                    v.extend(self.lit(lit, *negated));
                }
                hir::PatExprKind::Path(qp) => {
                    k = "Path";
                    v.extend(self.qpath(qp, pe.hir_id));
                }
            },
            hir::PatKind::Guard(x, g) => {
                k = "Guard";
                v.push(("p", self.pat(x)));
                v.push(("guard", self.expr(g)));
            }
            hir::PatKind::Range(..) => k = "Range",
            hir::PatKind::Slice(a, m, b) => {
                k = "Slice";
                v.push(("before", J::Arr(a.iter().map(|x| self.pat(x)).collect())));
                if let Some(m) = m {
                    v.push(("mid", self.pat(m)));
                }
                v.push(("after", J::Arr(b.iter().map(|x| self.pat(x)).collect())));
            }
            hir::PatKind::Never => k = "Never",
            hir::PatKind::Err(_) => k = "Err",
        }
        let mut o: Vec<(&'static str, J)> = vec![("k", J::s(k))];
        if let Some(t) = self.tr.node_type_opt(p.hir_id) {
            o.push(("ty", J::s(t.to_string())));
        }
        o.extend(v);
        J::Obj(o)
    }

    fn block(&self, b: &hir::Block<'tcx>) -> J {
        let mut stmts = vec![];
        for s in b.stmts {
            match &s.kind {
                hir::StmtKind::Let(l) => {
                    stmts.push(obj! {
                        "k": J::s("Let"),
                        "l": line(self.tcx, s.span),
                        "pat": self.pat(l.pat),
                        "init": l.init.map(|e| self.expr(e)).unwrap_or(J::Null),
                        "els": l.els.map(|b| self.block(b)).unwrap_or(J::Null),
                    });
                }
                hir::StmtKind::Item(_) => {}
                hir::StmtKind::Expr(e) => stmts.push(self.expr(e)),
                hir::StmtKind::Semi(e) => {
                    stmts.push(obj! { "k": J::s("Semi"), "e": self.expr(e) });
                }
            }
        }
        obj! {
            "k": J::s("Block"),
            "stmts": J::Arr(stmts),
            "expr": b.expr.map(|e| self.expr(e)).unwrap_or(J::Null),
        }
    }

    fn expr(&self, e: &hir::Expr<'tcx>) -> J {
        let tcx = self.tcx;
        let mut v: Vec<(&'static str, J)> = vec![];
        let k: &'static str;
        match &e.kind {
            hir::ExprKind::DropTemps(x) | hir::ExprKind::Use(x, _) | hir::ExprKind::Type(x, _) => {
                return self.expr(x);
            }
            hir::ExprKind::Array(xs) => {
                k = "Array";
                v.push(("elems", J::Arr(xs.iter().map(|x| self.expr(x)).collect())));
            }
            hir::ExprKind::Tup(xs) => {
                k = "Tup";
                v.push(("elems", J::Arr(xs.iter().map(|x| self.expr(x)).collect())));
            }
            hir::ExprKind::Call(f, args) => {
                k = "Call";
                if let hir::ExprKind::Path(qp) = &f.kind {
                    let res = self.tr.qpath_res(qp, f.hir_id);
                    if let Res::Def(kind, did) = res {
                        match kind {
                            DefKind::Fn | DefKind::AssocFn => {
                                v.push(("callee", J::s(path(tcx, did))));
                                if let Some(t) = tcx.trait_of_assoc(did) {
                                    v.push(("trait", J::s(path(tcx, t))));
                                }
                            }
                            DefKind::Ctor(..) => {
                                v.push(("ctor", J::Bool(true)));
                            }
                            _ => {}
                        }
                    }
                }
                v.push(("f", self.expr(f)));
                v.push(("args", J::Arr(args.iter().map(|x| self.expr(x)).collect())));
            }
            hir::ExprKind::MethodCall(seg, recv, args, _) => {
                k = "MethodCall";
                v.push(("method", J::s(seg.ident.name.to_string())));
                if let Some(did) = self.tr.type_dependent_def_id(e.hir_id) {
                    v.push(("callee", J::s(path(tcx, did))));
                    if let Some(t) = tcx.trait_of_assoc(did) {
                        v.push(("trait", J::s(path(tcx, t))));
                    }
                }
                if let Some(args) = self.tr.node_args_opt(e.hir_id) {
                    if !args.is_empty() {
                        v.push(("gargs", J::Arr(args.iter().map(|a| J::s(a.to_string())).collect())));
                    }
                }
                v.push(("recv", self.expr(recv)));
                v.push(("recv_ty", J::s(self.tr.expr_ty_adjusted(recv).to_string())));
                v.push(("args", J::Arr(args.iter().map(|x| self.expr(x)).collect())));
            }
            hir::ExprKind::Binary(op, a, b) => {
                k = "Binary";
                v.push(("op", J::s(format!("{:?}", op.node))));
                v.push(("a", self.expr(a)));
                v.push(("b", self.expr(b)));
            }
            hir::ExprKind::Unary(op, a) => {
                k = "Unary";
                v.push(("op", J::s(format!("{:?}", op))));
                v.push(("a", self.expr(a)));
            }
            hir::ExprKind::Lit(l) => {
                k = "Lit";
                v.extend(self.lit(l, false));
            }
            hir::ExprKind::Cast(x, _) => {
                k = "Cast";
                v.push(("from", J::s(self.tr.expr_ty(x).to_string())));
                v.push(("e", self.expr(x)));
            }
            hir::ExprKind::Let(l) => {
                k = "LetExpr";
                v.push(("pat", self.pat(l.pat)));
                v.push(("init", self.expr(l.init)));
            }
            hir::ExprKind::If(c, t, el) => {
                k = "If";
                v.push(("c", self.expr(c)));
                v.push(("t", self.expr(t)));
                if let Some(el) = el {
                    v.push(("e", self.expr(el)));
                }
            }
            hir::ExprKind::Loop(b, _, src, _) => {
                k = "Loop";
                v.push(("src", J::s(format!("{:?}", src))));
                v.push(("body", self.block(b)));
            }
            hir::ExprKind::Match(scrut, arms, src) => {
                k = "Match";
                v.push(("src", J::s(format!("{:?}", src))));
                v.push(("scrut", self.expr(scrut)));
                let arms: Vec<J> = arms
                    .iter()
                    .map(|a| {
                        obj! {
                            "l": line(tcx, a.span),
                            "pat": self.pat(a.pat),
                            "guard": a.guard.map(|g| self.expr(g)).unwrap_or(J::Null),
                            "body": self.expr(a.body),
                        }
                    })
                    .collect();
                v.push(("arms", J::Arr(arms)));
            }
            hir::ExprKind::Closure(c) => {
                k = "Closure";
                let body = tcx.hir_body(c.body);
                v.push(("def", J::s(path(tcx, c.def_id.to_def_id()))));
                v.push(("params", J::Arr(body.params.iter().map(|p| self.pat(p.pat)).collect())));
                v.push(("body", self.expr(body.value)));
            }
            hir::ExprKind::Block(b, _) => {
                let mut o = self.block(b);
                if let J::Obj(ref mut ov) = o {
                    ov.push(("l", line(tcx, e.span)));
                    ov.push(("id", J::Num(e.hir_id.local_id.as_u32() as i128)));
                }
                return o;
            }
            hir::ExprKind::Assign(a, b, _) => {
                k = "Assign";
                v.push(("a", self.expr(a)));
                v.push(("b", self.expr(b)));
            }
            hir::ExprKind::AssignOp(op, a, b) => {
                k = "AssignOp";
                v.push(("op", J::s(format!("{:?}", op.node))));
                v.push(("a", self.expr(a)));
                v.push(("b", self.expr(b)));
            }
            hir::ExprKind::Field(x, ident) => {
                k = "Field";
                v.push(("name", J::s(ident.name.to_string())));
                v.push(("base_ty", J::s(self.tr.expr_ty_adjusted(x).to_string())));
                v.push(("e", self.expr(x)));
            }
            hir::ExprKind::Index(a, b, _) => {
                k = "Index";
                v.push(("a", self.expr(a)));
                v.push(("b", self.expr(b)));
                if let Some(did) = self.tr.type_dependent_def_id(e.hir_id) {
                    v.push(("callee", J::s(path(tcx, did))));
                }
                v.push(("base_ty", J::s(self.tr.expr_ty_adjusted(a).to_string())));
            }
            hir::ExprKind::Path(qp) => {
                k = "Path";
                v.extend(self.qpath(qp, e.hir_id));
            }
            hir::ExprKind::AddrOf(_, m, x) => {
                k = "AddrOf";
                v.push(("mut", J::Bool(m.is_mut())));
                v.push(("e", self.expr(x)));
            }
            hir::ExprKind::Break(dest, x) => {
                k = "Break";
                if let Ok(t) = dest.target_id {
                    v.push(("target", J::Num(t.local_id.as_u32() as i128)));
                }
                if let Some(x) = x {
                    v.push(("e", self.expr(x)));
                }
            }
            hir::ExprKind::Continue(dest) => {
                k = "Continue";
                if let Ok(t) = dest.target_id {
                    v.push(("target", J::Num(t.local_id.as_u32() as i128)));
                }
            }
            hir::ExprKind::Ret(x) => {
                k = "Ret";
                if let Some(x) = x {
                    v.push(("e", self.expr(x)));
                }
            }
            hir::ExprKind::Struct(qp, fields, tail) => {
                k = "Struct";
                let res = self.tr.qpath_res(qp, e.hir_id);
                let ty = self.tr.expr_ty(e);
                if let Some(adt) = ty.ty_adt_def() {
                    v.push(("adt", J::s(path(tcx, adt.did()))));
                    let vname = match res {
                        Res::Def(DefKind::Variant, did) => tcx.item_name(did).to_string(),
                        _ => {
                            if adt.is_enum() {
                                "?".to_string()
                            } else {
                                adt.non_enum_variant().name.to_string()
                            }
                        }
                    };
                    v.push(("variant", J::s(vname)));
                }
                let fs: Vec<J> = fields
                    .iter()
                    .map(|f| {
                        obj! {
                            "name": J::s(f.ident.name.to_string()),
                            "shorthand": J::Bool(f.is_shorthand),
                            "e": self.expr(f.expr),
                        }
                    })
                    .collect();
                v.push(("fields", J::Arr(fs)));
                match tail {
                    hir::StructTailExpr::Base(b) => v.push(("base", self.expr(b))),
                    hir::StructTailExpr::DefaultFields(_) => v.push(("base", J::s("default"))),
                    _ => {}
                }
            }
            hir::ExprKind::Repeat(x, _) => {
                k = "Repeat";
                v.push(("e", self.expr(x)));
            }
            hir::ExprKind::ConstBlock(_) => k = "ConstBlock",
            hir::ExprKind::Become(_) => k = "Become",
            hir::ExprKind::InlineAsm(_) => k = "InlineAsm",
            hir::ExprKind::OffsetOf(..) => k = "OffsetOf",
            hir::ExprKind::Yield(..) => k = "Yield",
            hir::ExprKind::UnsafeBinderCast(..) => k = "UnsafeBinderCast",
            hir::ExprKind::Err(_) => k = "Err",
        }
        let mut o: Vec<(&'static str, J)> = vec![("k", J::s(k)), ("l", line(tcx, e.span))];
        if let Some(m) = mac_chain(e.span) {
            o.push(("mac", J::Str(m)));
        }
        if let Some(t) = self.tr.expr_ty_opt(e) {
            o.push(("ty", J::s(t.to_string())));
        }
        if k == "Loop" || k == "Closure" || k == "Match" {
            o.push(("id", J::Num(e.hir_id.local_id.as_u32() as i128)));
        }
        o.extend(v);
        J::Obj(o)
    }
}
