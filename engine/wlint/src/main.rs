//! wlint: a rustc_private driver that dumps the *resolved program* of the
//! `walrus` crate as JSON facts (ADT inventory, typed+resolved HIR trees, MIR
//! control-flow graphs with resolved callees, an instance-level call graph).
//! The rules that decide the properties (in /verif/rules) query these facts.
//!
//! Invoked through RUSTC_WORKSPACE_WRAPPER: argv = [wlint, rustc, args...].
#![feature(rustc_private)]
#![allow(clippy::all)]

extern crate rustc_abi;
extern crate rustc_ast;
extern crate rustc_data_structures;
extern crate rustc_driver;
extern crate rustc_hir;
extern crate rustc_index;
extern crate rustc_interface;
extern crate rustc_middle;
extern crate rustc_session;
extern crate rustc_span;

#[macro_use]
mod json;
mod adt;
mod hirdump;
mod mirdump;
mod mono;
mod util;

use rustc_driver::{Callbacks, Compilation};
use rustc_interface::interface::Compiler;
use rustc_middle::ty::TyCtxt;

struct Wlint {
    out_dir: String,
    cfgs: Vec<String>,
}

impl Callbacks for Wlint {
    fn after_analysis<'tcx>(&mut self, _c: &Compiler, tcx: TyCtxt<'tcx>) -> Compilation {
        let krate = tcx.crate_name(rustc_hir::def_id::LOCAL_CRATE).to_string();
        let want = std::env::var("WLINT_CRATE").unwrap_or_else(|_| "walrus".to_string());
        if krate != want {
            return Compilation::Continue;
        }
        let t0 = std::time::Instant::now();
        std::fs::create_dir_all(&self.out_dir).expect("create out dir");
        let write = |name: &str, j: json::J| {
            let mut s = String::new();
            j.write(&mut s);
            let p = format!("{}/{}", self.out_dir, name);
            std::fs::write(&p, s).unwrap_or_else(|e| panic!("write {}: {}", p, e));
        };
        write("adts.json", adt::dump(tcx));
        write("fns.json", util::dump_fns(tcx));
        write("hir.json", hirdump::dump(tcx));
        write("mir.json", mirdump::dump(tcx));
        write("mono.json", mono::dump(tcx));
        let meta = obj! {
            "crate": json::J::s(krate),
            "rustc": json::J::s(option_env!("CFG_VERSION").unwrap_or("nightly")),
            "elapsed_ms": json::J::Num(t0.elapsed().as_millis() as i128),
            "cfg": json::J::Arr(self.cfgs.iter().map(|s| json::J::s(s.clone())).collect()),
        };
        write("meta.json", meta);
        Compilation::Continue
    }
}

fn main() {
    let mut args: Vec<String> = std::env::args().collect();
    // workspace-wrapper convention: argv[1] is the real rustc
    if args.len() > 1 && (args[1].ends_with("rustc") || args[1].contains("/rustc")) {
        args.remove(1);
    }
    let out_dir = std::env::var("WLINT_OUT").unwrap_or_else(|_| "/tmp/wlint-out".to_string());
    let mut cfgs = vec![];
    for (i, a) in args.iter().enumerate() {
        if a == "--cfg" {
            if let Some(c) = args.get(i + 1) {
                cfgs.push(c.clone());
            }
        }
    }
    let mut cb = Wlint { out_dir, cfgs };
    rustc_driver::run_compiler(&args, &mut cb);
}
