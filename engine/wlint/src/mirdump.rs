//! MIR control-flow graphs of every local fn-like body, with resolved callees.
use crate::json::J;
use crate::util::{body_owners_fn, mac_chain, opt_s, path, sp};
use rustc_hir::def_id::DefId;
use rustc_middle::mir::PlaceTy;
use rustc_middle::mir::*;
use rustc_middle::ty::{self, Instance, Ty, TyCtxt, TypingEnv};
use rustc_span::Span;

pub fn dump(tcx: TyCtxt<'_>) -> J {
    let mut out = vec![];
    for ldid in body_owners_fn(tcx) {
        let did = ldid.to_def_id();
        let body = tcx.optimized_mir(did);
        out.push(dump_body(tcx, did, body));
    }
    J::Arr(out)
}

pub fn line(tcx: TyCtxt<'_>, span: Span) -> J {
    let span = span.source_callsite();
    if span.is_dummy() {
        return J::Null;
    }
    let loc = tcx.sess.source_map().lookup_char_pos(span.lo());
    J::Num(loc.line as i128)
}

pub struct BCx<'a, 'tcx> {
    pub tcx: TyCtxt<'tcx>,
    pub body: &'a Body<'tcx>,
    pub def: DefId,
}

pub fn dump_body<'tcx>(tcx: TyCtxt<'tcx>, did: DefId, body: &Body<'tcx>) -> J {
    let cx = BCx { tcx, body, def: did };
    let mut names: Vec<Option<String>> = vec![None; body.local_decls.len()];
    for vdi in &body.var_debug_info {
        if let VarDebugInfoContents::Place(p) = vdi.value {
            if p.projection.is_empty() {
                names[p.local.as_usize()] = Some(vdi.name.to_string());
            }
        }
    }
    let locals: Vec<J> = body
        .local_decls
        .iter_enumerated()
        .map(|(l, d)| {
            obj! {
                "ty": J::s(d.ty.to_string()),
                "name": opt_s(names[l.as_usize()].clone()),
            }
        })
        .collect();
    let blocks: Vec<J> = body
        .basic_blocks
        .iter()
        .map(|bb| {
            let stmts: Vec<J> = bb.statements.iter().filter_map(|s| cx.stmt(s)).collect();
            obj! {
                "cleanup": J::Bool(bb.is_cleanup),
                "stmts": J::Arr(stmts),
                "term": cx.term(bb.terminator()),
            }
        })
        .collect();
    obj! {
        "path": J::s(path(tcx, did)),
        "sp": J::s(sp(tcx, body.span)),
        "arg_count": J::Num(body.arg_count as i128),
        "locals": J::Arr(locals),
        "blocks": J::Arr(blocks),
    }
}

impl<'a, 'tcx> BCx<'a, 'tcx> {
    pub fn place(&self, p: &Place<'tcx>) -> J {
        let tcx = self.tcx;
        let mut v = vec![J::Num(p.local.as_usize() as i128)];
        let mut pty = PlaceTy::from_ty(self.body.local_decls[p.local].ty);
        for elem in p.projection.iter() {
            let s = match elem {
                ProjectionElem::Deref => "*".to_string(),
                ProjectionElem::Field(f, _) => {
                    let mut name = format!(".{}", f.as_usize());
                    if let ty::Adt(adt, _) = pty.ty.kind() {
                        let vidx = pty.variant_index.unwrap_or(rustc_abi::FIRST_VARIANT);
                        if adt.is_enum() || !adt.is_union() {
                            if let Some(vd) = adt.variants().get(vidx) {
                                if let Some(fd) = vd.fields.get(f) {
                                    name = format!(".{}", fd.name);
                                }
                            }
                        }
                    }
                    name
                }
                ProjectionElem::Index(l) => format!("[_{}]", l.as_usize()),
                ProjectionElem::ConstantIndex { offset, from_end, .. } => {
                    format!("[{}{}]", if from_end { "-" } else { "" }, offset)
                }
                ProjectionElem::Subslice { .. } => "[..]".to_string(),
                ProjectionElem::Downcast(name, vidx) => match name {
                    Some(n) => format!("@{}", n),
                    None => format!("@{}", vidx.as_usize()),
                },
                ProjectionElem::OpaqueCast(_) => "opaque".to_string(),
                ProjectionElem::UnwrapUnsafeBinder(_) => "unbind".to_string(),
            };
            v.push(J::Str(s));
            pty = pty.projection_ty(tcx, elem);
        }
        J::Arr(v)
    }

    fn fn_def(&self, ty: Ty<'tcx>) -> Vec<(&'static str, J)> {
        let tcx = self.tcx;
        let mut v = vec![];
        if let ty::FnDef(did, args) = ty.kind() {
            v.push(("fn", J::s(path(tcx, *did))));
            if !args.is_empty() {
                v.push(("gargs", J::Arr(args.iter().map(|a| J::s(a.to_string())).collect())));
            }
            if let Some(t) = tcx.trait_of_assoc(*did) {
                v.push(("trait", J::s(path(tcx, t))));
            }
            let env = TypingEnv::post_analysis(tcx, self.def);
            let r = std::panic::catch_unwind(std::panic::AssertUnwindSafe(|| {
                Instance::try_resolve(tcx, env, *did, args)
            }));
            if let Ok(Ok(Some(inst))) = r {
                let rdid = inst.def_id();
                v.push(("resolved", J::s(path(tcx, rdid))));
                let kind = match inst.def {
                    ty::InstanceKind::Item(_) => "item",
                    ty::InstanceKind::Virtual(..) => "virtual",
                    ty::InstanceKind::ClosureOnceShim { .. } => "closure_once",
                    ty::InstanceKind::FnPtrShim(..) => "fnptr_shim",
                    ty::InstanceKind::DropGlue(..) => "drop_glue",
                    ty::InstanceKind::CloneShim(..) => "clone_shim",
                    ty::InstanceKind::Intrinsic(_) => "intrinsic",
                    _ => "other",
                };
                v.push(("rkind", J::s(kind)));
                v.push(("rlocal", J::Bool(rdid.is_local())));
            }
        }
        v
    }

    pub fn operand(&self, o: &Operand<'tcx>) -> J {
        match o {
            Operand::Copy(p) => obj! { "c": self.place(p) },
            Operand::Move(p) => obj! { "m": self.place(p) },
            Operand::Constant(c) => {
                let ty = c.const_.ty();
                let mut v: Vec<(&'static str, J)> = vec![("ty", J::s(ty.to_string()))];
                let fd = self.fn_def(ty);
                if fd.is_empty() {
                    v.push(("v", J::s(format!("{}", c.const_))));
                } else {
                    v.extend(fd);
                }
                obj! { "k": J::Obj(v) }
            }
            #[allow(unreachable_patterns)]
            _ => obj! { "other": J::s(format!("{:?}", o)) },
        }
    }

    fn rvalue(&self, rv: &Rvalue<'tcx>) -> J {
        let tcx = self.tcx;
        match rv {
            Rvalue::Use(o, _) => obj! { "rv": J::s("Use"), "a": self.operand(o) },
            Rvalue::Repeat(o, _) => obj! { "rv": J::s("Repeat"), "a": self.operand(o) },
            Rvalue::Ref(_, bk, p) => obj! {
                "rv": J::s("Ref"),
                "mut": J::Bool(matches!(bk, BorrowKind::Mut { .. })),
                "p": self.place(p),
            },
            Rvalue::RawPtr(_, p) => obj! { "rv": J::s("RawPtr"), "p": self.place(p) },
            Rvalue::ThreadLocalRef(d) => obj! { "rv": J::s("ThreadLocalRef"), "def": J::s(path(tcx, *d)) },
            Rvalue::Cast(kind, o, ty) => obj! {
                "rv": J::s("Cast"),
                "kind": J::s(format!("{:?}", kind)),
                "from": J::s(o.ty(self.body, tcx).to_string()),
                "to": J::s(ty.to_string()),
                "a": self.operand(o),
            },
            Rvalue::BinaryOp(op, ab) => obj! {
                "rv": J::s("BinaryOp"),
                "op": J::s(format!("{:?}", op)),
                "a": self.operand(&ab.0),
                "b": self.operand(&ab.1),
                "aty": J::s(ab.0.ty(self.body, tcx).to_string()),
            },
            Rvalue::UnaryOp(op, o) => obj! {
                "rv": J::s("UnaryOp"),
                "op": J::s(format!("{:?}", op)),
                "a": self.operand(o),
            },
            Rvalue::Discriminant(p) => obj! { "rv": J::s("Discriminant"), "p": self.place(p) },
            Rvalue::Aggregate(kind, ops) => {
                let mut v: Vec<(&'static str, J)> = vec![("rv", J::s("Aggregate"))];
                match &**kind {
                    AggregateKind::Array(_) => v.push(("agg", J::s("array"))),
                    AggregateKind::Tuple => v.push(("agg", J::s("tuple"))),
                    AggregateKind::Adt(did, vidx, _, _, _) => {
                        v.push(("agg", J::s("adt")));
                        let adt = tcx.adt_def(*did);
                        v.push(("adt", J::s(path(tcx, *did))));
                        let vd = adt.variant(*vidx);
                        v.push(("variant", J::s(vd.name.to_string())));
                        v.push((
                            "fields",
                            J::Arr(vd.fields.iter().map(|f| J::s(f.name.to_string())).collect()),
                        ));
                    }
                    AggregateKind::Closure(did, _) => {
                        v.push(("agg", J::s("closure")));
                        v.push(("def", J::s(path(tcx, *did))));
                    }
                    _ => v.push(("agg", J::s("other"))),
                }
                v.push(("ops", J::Arr(ops.iter().map(|o| self.operand(o)).collect())));
                J::Obj(v)
            }
            Rvalue::CopyForDeref(p) => obj! { "rv": J::s("Use"), "a": obj!{ "c": self.place(p) } },
            other => obj! { "rv": J::s("Other"), "dbg": J::s(format!("{:?}", other)) },
        }
    }

    fn stmt(&self, s: &Statement<'tcx>) -> Option<J> {
        let tcx = self.tcx;
        match &s.kind {
            StatementKind::Assign(b) => {
                let (p, rv) = &**b;
                let mut o = vec![
                    ("s", J::s("Assign")),
                    ("l", line(tcx, s.source_info.span)),
                    ("p", self.place(p)),
                    ("r", self.rvalue(rv)),
                ];
                if let Some(m) = mac_chain(s.source_info.span) {
                    o.push(("mac", J::Str(m)));
                }
                Some(J::Obj(o))
            }
            StatementKind::SetDiscriminant { place, variant_index } => Some(obj! {
                "s": J::s("SetDiscriminant"),
                "l": line(tcx, s.source_info.span),
                "p": self.place(place),
                "variant": J::Num(variant_index.as_usize() as i128),
            }),
            _ => None,
        }
    }

    fn term(&self, t: &Terminator<'tcx>) -> J {
        let tcx = self.tcx;
        let span = t.source_info.span;
        let mut v: Vec<(&'static str, J)> = vec![];
        let bbn = |b: BasicBlock| J::Num(b.as_usize() as i128);
        let unwind = |u: &UnwindAction| match u {
            UnwindAction::Cleanup(b) => bbn(*b),
            _ => J::Null,
        };
        let k: &'static str;
        match &t.kind {
            TerminatorKind::Goto { target } => {
                k = "Goto";
                v.push(("target", bbn(*target)));
            }
            TerminatorKind::SwitchInt { discr, targets } => {
                k = "SwitchInt";
                v.push(("discr", self.operand(discr)));
                v.push(("dty", J::s(discr.ty(self.body, tcx).to_string())));
                let ts: Vec<J> = targets
                    .iter()
                    .map(|(val, bb)| J::Arr(vec![J::Num(val as i128), bbn(bb)]))
                    .collect();
                v.push(("targets", J::Arr(ts)));
                v.push(("otherwise", bbn(targets.otherwise())));
            }
            TerminatorKind::Return => k = "Return",
            TerminatorKind::Unreachable => k = "Unreachable",
            TerminatorKind::UnwindResume => k = "UnwindResume",
            TerminatorKind::UnwindTerminate(_) => k = "UnwindTerminate",
            TerminatorKind::Drop { place, target, unwind: u, .. } => {
                k = "Drop";
                v.push(("p", self.place(place)));
                v.push(("target", bbn(*target)));
                v.push(("unwind", unwind(u)));
            }
            TerminatorKind::Call { func, args, destination, target, unwind: u, fn_span, .. } => {
                k = "Call";
                v.push(("func", self.operand(func)));
                v.push(("args", J::Arr(args.iter().map(|a| self.operand(&a.node)).collect())));
                v.push(("dest", self.place(destination)));
                v.push(("target", target.map(bbn).unwrap_or(J::Null)));
                v.push(("unwind", unwind(u)));
                v.push(("fl", line(tcx, *fn_span)));
            }
            TerminatorKind::TailCall { func, args, .. } => {
                k = "TailCall";
                v.push(("func", self.operand(func)));
                v.push(("args", J::Arr(args.iter().map(|a| self.operand(&a.node)).collect())));
            }
            TerminatorKind::Assert { cond, expected, msg, target, unwind: u } => {
                k = "Assert";
                v.push(("cond", self.operand(cond)));
                v.push(("expected", J::Bool(*expected)));
                let m = match &**msg {
                    AssertKind::BoundsCheck { .. } => "BoundsCheck".to_string(),
                    AssertKind::Overflow(op, ..) => format!("Overflow({:?})", op),
                    AssertKind::OverflowNeg(_) => "OverflowNeg".to_string(),
                    AssertKind::DivisionByZero(_) => "DivisionByZero".to_string(),
                    AssertKind::RemainderByZero(_) => "RemainderByZero".to_string(),
                    _ => "Other".to_string(),
                };
                v.push(("msg", J::Str(m)));
                v.push(("target", bbn(*target)));
                v.push(("unwind", unwind(u)));
            }
            TerminatorKind::FalseEdge { real_target, .. } => {
                k = "Goto";
                v.push(("target", bbn(*real_target)));
            }
            TerminatorKind::FalseUnwind { real_target, .. } => {
                k = "Goto";
                v.push(("target", bbn(*real_target)));
            }
            _ => k = "Other",
        }
        let mut o: Vec<(&'static str, J)> = vec![("t", J::s(k)), ("l", line(tcx, span))];
        if let Some(m) = mac_chain(span) {
            o.push(("mac", J::Str(m)));
        }
        o.extend(v);
        J::Obj(o)
    }
}
