//! Instance-level (monomorphic) call graph of the local crate, built the way
//! the mono-item collector does it: start from every non-generic local
//! function, substitute the caller's generic arguments into each callee type
//! and resolve trait calls with `Instance::try_resolve`.  Foreign callees are
//! leaves; closures / fn items that are *constructed or mentioned* in a body
//! get a "mention" edge (they are invoked from inside foreign adaptors such as
//! `Iterator::map`).  Calls through `dyn Trait` get an edge to every local impl.
use crate::json::J;
use crate::mirdump::line;
use crate::util::{body_owners_fn, path};
use rustc_hir::def::DefKind;
use rustc_middle::mir::*;
use rustc_middle::ty::{self, EarlyBinder, Instance, InstanceKind, Ty, TyCtxt, TypingEnv};
use std::collections::HashMap;

pub fn dump(tcx: TyCtxt<'_>) -> J {
    let mut g = Graph { tcx, ids: HashMap::new(), insts: vec![], edges: vec![], work: vec![] };
    let mut roots = vec![];
    for ldid in body_owners_fn(tcx) {
        let did = ldid.to_def_id();
        if tcx.def_kind(did) == DefKind::Closure {
            continue;
        }
        if has_ty_params(tcx, did) {
            continue;
        }
        let inst = Instance::mono(tcx, did);
        roots.push(J::Num(g.id(inst) as i128));
    }
    while let Some(i) = g.work.pop() {
        g.visit(i);
    }
    let insts: Vec<J> = g
        .insts
        .iter()
        .map(|inst| {
            let did = inst.def_id();
            obj! {
                "def": J::s(path(tcx, did)),
                "args": J::Arr(inst.args.iter().map(|a| J::s(a.to_string())).collect()),
                "local": J::Bool(did.is_local()),
                "kind": J::s(match inst.def {
                    InstanceKind::Item(_) => "item",
                    InstanceKind::Virtual(..) => "virtual",
                    InstanceKind::ClosureOnceShim { .. } => "closure_once",
                    InstanceKind::Intrinsic(_) => "intrinsic",
                    InstanceKind::DropGlue(..) => "drop_glue",
                    _ => "shim",
                }),
            }
        })
        .collect();
    let edges: Vec<J> = g
        .edges
        .iter()
        .map(|e| {
            J::Arr(vec![
                J::Num(e.0 as i128),
                J::Num(e.1 as i128),
                J::s(e.2),
                J::Num(e.3 as i128),
                e.4.clone(),
            ])
        })
        .collect();
    obj! { "instances": J::Arr(insts), "edges": J::Arr(edges), "roots": J::Arr(roots) }
}

pub fn has_ty_params(tcx: TyCtxt<'_>, did: rustc_hir::def_id::DefId) -> bool {
    let mut gg = Some(tcx.generics_of(did));
    while let Some(cur) = gg {
        if cur.own_params.iter().any(|p| !matches!(p.kind, ty::GenericParamDefKind::Lifetime)) {
            return true;
        }
        gg = cur.parent.map(|p| tcx.generics_of(p));
    }
    false
}

struct Graph<'tcx> {
    tcx: TyCtxt<'tcx>,
    ids: HashMap<Instance<'tcx>, usize>,
    insts: Vec<Instance<'tcx>>,
    // (from, to, kind, bb, line)
    edges: Vec<(usize, usize, &'static str, usize, J)>,
    work: Vec<usize>,
}

impl<'tcx> Graph<'tcx> {
    fn id(&mut self, inst: Instance<'tcx>) -> usize {
        if let Some(&i) = self.ids.get(&inst) {
            return i;
        }
        let i = self.insts.len();
        self.insts.push(inst);
        self.ids.insert(inst, i);
        // follow only local item bodies (and closures, which are local items)
        if let InstanceKind::Item(did) = inst.def {
            if did.is_local() && self.tcx.is_mir_available(did) {
                self.work.push(i);
            }
        }
        i
    }

    fn subst_ty(&self, inst: Instance<'tcx>, ty: Ty<'tcx>) -> Ty<'tcx> {
        inst.instantiate_mir_and_normalize_erasing_regions(
            self.tcx,
            TypingEnv::fully_monomorphized(),
            EarlyBinder::bind(ty),
        )
    }

    fn callee_of(&mut self, from: usize, fty: Ty<'tcx>, kind: &'static str, bb: usize, l: J) {
        let tcx = self.tcx;
        match fty.kind() {
            ty::FnDef(did, args) => {
                let r = std::panic::catch_unwind(std::panic::AssertUnwindSafe(|| {
                    Instance::try_resolve(tcx, TypingEnv::fully_monomorphized(), *did, args)
                }));
                match r {
                    Ok(Ok(Some(inst))) => self.add_resolved(from, inst, kind, bb, l),
                    _ => {
                        let to = self.id(Instance::new_raw(*did, args));
                        self.edges.push((from, to, "unresolved", bb, l));
                    }
                }
            }
            ty::Closure(did, args) => {
                let to = self.id(Instance::new_raw(*did, args));
                self.edges.push((from, to, kind, bb, l));
            }
            _ => {}
        }
    }

    fn add_resolved(&mut self, from: usize, inst: Instance<'tcx>, kind: &'static str, bb: usize, l: J) {
        let tcx = self.tcx;
        match inst.def {
            InstanceKind::ClosureOnceShim { .. } => {
                // the shim forwards to the closure body
                let self_ty = inst.args.type_at(0);
                if let ty::Closure(did, cargs) = self_ty.kind() {
                    let to = self.id(Instance::new_raw(*did, cargs));
                    self.edges.push((from, to, kind, bb, l));
                    return;
                }
                let to = self.id(inst);
                self.edges.push((from, to, kind, bb, l));
            }
            InstanceKind::Virtual(mdid, _) => {
                let to = self.id(inst);
                self.edges.push((from, to, "virtual", bb, l.clone()));
                // every local impl of the trait method may be the target
                if let Some(tr) = tcx.trait_of_assoc(mdid) {
                    if let Some(impls) = tcx.all_local_trait_impls(()).get(&tr) {
                        let name = tcx.item_name(mdid);
                        for imp in impls.clone() {
                            let mut found = None;
                            for &m in tcx.associated_item_def_ids(imp.to_def_id()) {
                                if tcx.def_kind(m) == DefKind::AssocFn && tcx.item_name(m) == name {
                                    found = Some(m);
                                }
                            }
                            if let Some(m) = found {
                                if !has_ty_params(tcx, m) {
                                    let ti = Instance::mono(tcx, m);
                                    let t = self.id(ti);
                                    self.edges.push((from, t, "dyn_impl", bb, l.clone()));
                                }
                            }
                        }
                    }
                    // trait default body (taken by foreign impls / local impls without override)
                    if mdid.is_local() && tcx.is_mir_available(mdid) && !has_ty_params_own(tcx, mdid) {
                        // cannot instantiate Self; recorded as def-level edge only
                    }
                }
            }
            _ => {
                let to = self.id(inst);
                self.edges.push((from, to, kind, bb, l));
            }
        }
    }

    fn visit(&mut self, i: usize) {
        let tcx = self.tcx;
        let inst = self.insts[i];
        let body = tcx.instance_mir(inst.def);
        for (bb, data) in body.basic_blocks.iter_enumerated() {
            let bbi = bb.as_usize();
            for s in &data.statements {
                if let StatementKind::Assign(b) = &s.kind {
                    let l = line(tcx, s.source_info.span);
                    self.mentions_rvalue(i, inst, body, &b.1, bbi, l);
                }
            }
            let t = data.terminator();
            let l = line(tcx, t.source_info.span);
            match &t.kind {
                TerminatorKind::Call { func, args, .. } | TerminatorKind::TailCall { func, args, .. } => {
                    let fty = self.subst_ty(inst, func.ty(body, tcx));
                    self.callee_of(i, fty, "call", bbi, l.clone());
                    for a in args.iter() {
                        self.mention_operand(i, inst, body, &a.node, bbi, l.clone());
                    }
                }
                _ => {}
            }
        }
    }

    fn mention_operand(
        &mut self,
        from: usize,
        inst: Instance<'tcx>,
        body: &Body<'tcx>,
        o: &Operand<'tcx>,
        bb: usize,
        l: J,
    ) {
        if let Operand::Constant(c) = o {
            let ty = self.subst_ty(inst, c.const_.ty());
            if let ty::FnDef(..) = ty.kind() {
                self.callee_of(from, ty, "mention", bb, l);
            }
        }
        let _ = body;
    }

    fn mentions_rvalue(
        &mut self,
        from: usize,
        inst: Instance<'tcx>,
        body: &Body<'tcx>,
        rv: &Rvalue<'tcx>,
        bb: usize,
        l: J,
    ) {
        match rv {
            Rvalue::Aggregate(kind, ops) => {
                if let AggregateKind::Closure(did, args) = &**kind {
                    let cty = Ty::new_closure(self.tcx, *did, args);
                    let cty = self.subst_ty(inst, cty);
                    self.callee_of(from, cty, "mention", bb, l.clone());
                }
                for o in ops.iter() {
                    self.mention_operand(from, inst, body, o, bb, l.clone());
                }
            }
            Rvalue::Use(o, _) | Rvalue::Cast(_, o, _) => self.mention_operand(from, inst, body, o, bb, l),
            _ => {}
        }
    }
}

fn has_ty_params_own(tcx: TyCtxt<'_>, did: rustc_hir::def_id::DefId) -> bool {
    tcx.generics_of(did)
        .own_params
        .iter()
        .any(|p| !matches!(p.kind, ty::GenericParamDefKind::Lifetime))
}
