use crate::json::J;
use rustc_hir::def::DefKind;
use rustc_hir::def_id::{DefId, LocalDefId};
use rustc_middle::ty::TyCtxt;
use rustc_span::{ExpnKind, Span};

/// "file:line:col" of the span's *call site* in crate source (macro-expanded
/// spans are walked out to the invocation).
pub fn sp(tcx: TyCtxt<'_>, span: Span) -> String {
    let span = span.source_callsite();
    if span.is_dummy() {
        return "?".to_string();
    }
    let loc = tcx.sess.source_map().lookup_char_pos(span.lo());
    format!(
        "{}:{}:{}",
        loc.file.name.prefer_local_unconditionally(),
        loc.line,
        loc.col.0 + 1
    )
}

/// Name of the outermost user-visible macro this span was expanded from.
pub fn mac(span: Span) -> Option<String> {
    if !span.from_expansion() {
        return None;
    }
    let mut s = span;
    let mut name = None;
    // walk outwards; remember the outermost bang/attr/derive macro name
    while s.from_expansion() {
        let d = s.ctxt().outer_expn_data();
        match d.kind {
            ExpnKind::Macro(_, n) => name = Some(n.to_string()),
            ExpnKind::Desugaring(k) => {
                if name.is_none() {
                    name = Some(format!("desugar:{:?}", k));
                }
            }
            _ => {}
        }
        s = d.call_site;
    }
    name
}

/// innermost macro name (e.g. `panic`, `unimplemented`, `matches`) chain joined by '>'
pub fn mac_chain(span: Span) -> Option<String> {
    if !span.from_expansion() {
        return None;
    }
    let mut s = span;
    let mut names: Vec<String> = vec![];
    while s.from_expansion() {
        let d = s.ctxt().outer_expn_data();
        match d.kind {
            ExpnKind::Macro(_, n) => names.push(n.to_string()),
            ExpnKind::Desugaring(k) => names.push(format!("desugar:{:?}", k)),
            _ => {}
        }
        s = d.call_site;
    }
    if names.is_empty() {
        None
    } else {
        Some(names.join("<"))
    }
}

pub fn path(tcx: TyCtxt<'_>, did: DefId) -> String {
    tcx.def_path_str(did)
}

pub fn opt_s(o: Option<String>) -> J {
    match o {
        Some(s) => J::Str(s),
        None => J::Null,
    }
}

pub fn is_fn_like(k: DefKind) -> bool {
    matches!(k, DefKind::Fn | DefKind::AssocFn | DefKind::Closure)
}

pub fn body_owners_fn<'tcx>(tcx: TyCtxt<'tcx>) -> Vec<LocalDefId> {
    tcx.hir_body_owners()
        .filter(|d| is_fn_like(tcx.def_kind(d.to_def_id())))
        .collect()
}

pub fn dump_fns(tcx: TyCtxt<'_>) -> J {
    let mut v = vec![];
    for ldid in body_owners_fn(tcx) {
        let did = ldid.to_def_id();
        let kind = tcx.def_kind(did);
        let mut imp_self = J::Null;
        let mut imp_trait = J::Null;
        let mut trait_of = J::Null;
        let mut vis = J::Null;
        if matches!(kind, DefKind::Fn | DefKind::AssocFn) {
            vis = J::s(format!("{:?}", tcx.visibility(did)));
        }
        if kind == DefKind::AssocFn {
            let parent = tcx.parent(did);
            match tcx.def_kind(parent) {
                DefKind::Impl { of_trait } => {
                    imp_self = J::s(
                        tcx.type_of(parent).instantiate_identity().skip_norm_wip().to_string(),
                    );
                    if of_trait {
                        let tr = tcx.impl_trait_ref(parent).instantiate_identity().skip_norm_wip();
                        imp_trait = J::s(tcx.def_path_str(tr.def_id));
                    }
                }
                DefKind::Trait => {
                    trait_of = J::s(tcx.def_path_str(parent));
                }
                _ => {}
            }
        }
        let g = tcx.generics_of(did);
        let n_ty_params = {
            let mut n = 0;
            let mut gg = Some(g);
            while let Some(cur) = gg {
                n += cur
                    .own_params
                    .iter()
                    .filter(|p| !matches!(p.kind, rustc_middle::ty::GenericParamDefKind::Lifetime))
                    .count();
                gg = cur.parent.map(|p| tcx.generics_of(p));
            }
            n
        };
        let span = tcx.def_span(did);
        v.push(obj! {
            "path": J::s(path(tcx, did)),
            "kind": J::s(format!("{:?}", kind)),
            "vis": vis,
            "impl_self": imp_self,
            "impl_trait": imp_trait,
            "trait_of": trait_of,
            "ty_params": J::Num(n_ty_params as i128),
            "sp": J::s(sp(tcx, span)),
            "mac": opt_s(mac(span)),
            "parent": J::s(path(tcx, tcx.parent(did))),
        });
    }
    J::Arr(v)
}
