"""Enumerate id-carrying positions of a type from the ADT inventory.

A position is a path of steps from a value of some type to a value of type
`id_arena::Id<K>`:
   ('f', name)            struct field
   ('vf', 'Variant.name') field of an enum variant (tuple fields are "0","1",..)
   ('elem',)              element of a Vec / slice / set / arena
   ('some',)              payload of an Option
   ('tup', i)             tuple component
"""
import re
from facts import strip_ty, ty_head, ty_args

COLLECTIONS = {'std::vec::Vec', 'std::collections::HashSet', 'std::collections::BTreeSet', 'std::collections::VecDeque',
               'tombstone_arena::TombstoneArena', 'arena_set::ArenaSet', 'id_arena::Arena', 'map::IdHashSet'}
BOXES = {'std::boxed::Box', 'std::rc::Rc', 'std::sync::Arc', 'std::cell::RefCell', 'std::cell::Cell'}
MAPS = {'std::collections::HashMap', 'std::collections::BTreeMap', 'map::IdHashMap'}


def id_kind(ty):
    m = re.match(r'^id_arena::Id<(.+)>$', strip_ty(ty))
    return m.group(1) if m else None


def split_tuple(t):
    inner = t[1:-1]
    out, depth, cur = [], 0, ''
    for ch in inner:
        if ch in '<([':
            depth += 1
        elif ch in '>)]':
            depth -= 1
        if ch == ',' and depth == 0:
            out.append(cur.strip())
            cur = ''
        else:
            cur += ch
    if cur.strip():
        out.append(cur.strip())
    return out


def positions(F, ty, tracked, cut=(), path=(), seen=(), cut_hits=None):
    """yield (path, kind) for every id-carrying position below a value of type `ty`"""
    t = strip_ty(ty)
    k = id_kind(t)
    if k is not None:
        if tracked is None or k in tracked:
            yield (path, k)
        return
    if t.startswith('(') and t.endswith(')'):
        for i, sub in enumerate(split_tuple(t)):
            yield from positions(F, sub, tracked, cut, path + (('tup', i),), seen, cut_hits)
        return
    if t.startswith('[') and t.endswith(']'):
        inner = t[1:-1].split(';')[0].strip()
        yield from positions(F, inner, tracked, cut, path + (('elem',),), seen, cut_hits)
        return
    head = ty_head(t)
    args = ty_args(t)
    if head in cut:
        if cut_hits is not None:
            cut_hits.append((path, head))
        return
    if head in COLLECTIONS and args:
        a0 = args[0]
        if head in ('map::IdHashSet', 'tombstone_arena::TombstoneArena', 'arena_set::ArenaSet', 'id_arena::Arena'):
            # element type given directly
            if head == 'map::IdHashSet':
                a0 = 'id_arena::Id<%s>' % a0
        yield from positions(F, a0, tracked, cut, path + (('elem',),), seen, cut_hits)
        return
    if head in BOXES and args:
        yield from positions(F, args[0], tracked, cut, path, seen, cut_hits)
        return
    if head in ('std::option::Option', 'core::option::Option') and args:
        yield from positions(F, args[0], tracked, cut, path + (('some',),), seen, cut_hits)
        return
    if head in MAPS and len(args) >= 2:
        yield from positions(F, args[0], tracked, cut, path + (('key',),), seen, cut_hits)
        yield from positions(F, args[1], tracked, cut, path + (('val',),), seen, cut_hits)
        return
    adt = F.adt(head)
    if adt is None or not adt['local'] or head in seen:
        return
    seen2 = seen + (head,)
    is_enum = adt['kind'] == 'enum'
    for v in adt['variants']:
        for fd in v['fields']:
            step = ('vf', v['name'] + '.' + fd['name']) if is_enum else ('f', fd['name'])
            yield from positions(F, fd['ty'], tracked, cut, path + (step,), seen2, cut_hits)


def show_path(path):
    out = ''
    for s in path:
        if s[0] == 'f':
            out += '.' + s[1]
        elif s[0] == 'vf':
            v, f = s[1].split('.', 1)
            out += '@%s.%s' % (v, f)
        elif s[0] == 'elem':
            out += '[]'
        elif s[0] == 'some':
            out += '?'
        elif s[0] == 'tup':
            out += '.%d' % s[1]
        else:
            out += '{%s}' % s[0]
    return out


def peel(term):
    """term -> (root, path) following field / elem / ok / iter wrappers (inverse of positions' paths)"""
    path = []
    t = term
    while isinstance(t, tuple) and t:
        if t[0] == 'field':
            name = t[2]
            if name.isdigit():
                path.append(('tup', int(name)))
            elif '.' in name:
                path.append(('vf', name))
            else:
                path.append(('f', name))
            t = t[1]
        elif t[0] == 'elem':
            path.append(('elem',))
            t = t[1]
        elif t[0] == 'ok':
            path.append(('some',))
            t = t[1]
        elif t[0] == 'call' and t[1] in ('iter',) and len(t[2]) == 1:
            t = t[2][0]
        else:
            break
    path.reverse()
    return t, tuple(path)
