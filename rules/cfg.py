"""CFG primitives over the MIR facts: successors, dominators, post-dominators,
reachability, natural loops, call-site enumeration."""


class Cfg:
    def __init__(self, body, unwind=False):
        self.body = body
        self.blocks = body['blocks']
        n = len(self.blocks)
        self.n = n
        self.succ = [[] for _ in range(n)]
        for i, b in enumerate(self.blocks):
            self.succ[i] = self._succ_of(b['term'], unwind)
        self.pred = [[] for _ in range(n)]
        for i in range(n):
            for s in self.succ[i]:
                self.pred[s].append(i)
        self._dom = None
        self._pdom = None
        self.returns = [i for i, b in enumerate(self.blocks) if b['term']['t'] == 'Return']

    @staticmethod
    def _succ_of(t, unwind):
        k = t['t']
        out = []
        if k == 'Goto':
            out = [t['target']]
        elif k == 'SwitchInt':
            out = [x[1] for x in t['targets']] + [t['otherwise']]
        elif k in ('Drop', 'Assert'):
            out = [t['target']]
        elif k == 'Call':
            if t.get('target') is not None:
                out = [t['target']]
        if unwind and t.get('unwind') is not None:
            out.append(t['unwind'])
        # dedupe keep order
        seen, r = set(), []
        for x in out:
            if x not in seen:
                seen.add(x)
                r.append(x)
        return r

    # ---- reachability ----
    def reach(self, start, avoid=()):
        avoid = set(avoid)
        seen, work = set(), [start]
        while work:
            b = work.pop()
            if b in seen or b in avoid:
                continue
            seen.add(b)
            work.extend(self.succ[b])
        return seen

    def reach_after(self, start, avoid=()):
        """blocks reachable from the successors of start (start itself only if on a cycle)."""
        avoid = set(avoid)
        seen, work = set(), list(self.succ[start])
        while work:
            b = work.pop()
            if b in seen or b in avoid:
                continue
            seen.add(b)
            work.extend(self.succ[b])
        return seen

    def can_reach(self, a, b, avoid=()):
        return b in self.reach(a, avoid)

    # ---- dominators (iterative) ----
    def _compute_dom(self, entry_list, succ, pred):
        n = self.n
        ALL = set(range(n))
        dom = [set(ALL) for _ in range(n)]
        reach = set()
        work = list(entry_list)
        while work:
            b = work.pop()
            if b in reach:
                continue
            reach.add(b)
            work.extend(succ[b])
        for e in entry_list:
            dom[e] = {e}
        changed = True
        order = sorted(reach)
        while changed:
            changed = False
            for b in order:
                if b in entry_list:
                    continue
                ps = [p for p in pred[b] if p in reach]
                if not ps:
                    new = {b}
                else:
                    new = set.intersection(*[dom[p] for p in ps]) | {b}
                if new != dom[b]:
                    dom[b] = new
                    changed = True
        for b in range(n):
            if b not in reach:
                dom[b] = None
        return dom

    def dom(self):
        if self._dom is None:
            self._dom = self._compute_dom([0], self.succ, self.pred)
        return self._dom

    def dominates(self, a, b):
        """block a dominates block b (both reachable)."""
        d = self.dom()[b]
        return d is not None and a in d

    def pdom(self):
        """post-dominators w.r.t. normal Return exits."""
        if self._pdom is None:
            self._pdom = self._compute_dom(list(self.returns), self.pred, self.succ)
        return self._pdom

    def postdominates(self, a, b):
        d = self.pdom()[b]
        return d is not None and a in d

    # ---- loops ----
    def back_edges(self):
        out = []
        for b in range(self.n):
            for s in self.succ[b]:
                if self.dom()[b] is not None and s in self.dom()[b]:
                    out.append((b, s))
        return out

    def natural_loops(self):
        """header -> set(blocks)"""
        loops = {}
        for (t, h) in self.back_edges():
            body = {h}
            work = [t]
            while work:
                x = work.pop()
                if x in body:
                    continue
                body.add(x)
                work.extend(self.pred[x])
            loops.setdefault(h, set()).update(body)
        return loops

    def in_loop(self, b):
        return any(b in body for body in self.natural_loops().values())

    # ---- call sites ----
    def calls(self):
        """yield (bb, term) for Call terminators in non-cleanup blocks"""
        for i, b in enumerate(self.blocks):
            if b.get('cleanup'):
                continue
            t = b['term']
            if t['t'] in ('Call', 'TailCall'):
                yield i, t


def callee_name(term, resolved=True):
    f = term.get('func', {})
    k = f.get('k')
    if not k:
        return None
    if resolved and k.get('resolved'):
        return k['resolved']
    return k.get('fn')


def callee_fn(term):
    f = term.get('func', {})
    k = f.get('k')
    return k.get('fn') if k else None


def place_local(p):
    return p[0]


def operand_place(o):
    if 'c' in o:
        return o['c']
    if 'm' in o:
        return o['m']
    return None
