"""Loader and indexes for the wlint fact base (resolved program of the walrus crate)."""
import json
import os
import re


class Facts:
    def __init__(self, d):
        self.dir = d
        self.meta = self._load('meta.json')
        self.fns = {f['path']: f for f in self._load('fns.json')}
        self.adts = {}
        for a in self._load('adts.json'):
            # local wins over re-exported duplicates
            if a['path'] not in self.adts or a['local']:
                self.adts[a['path']] = a
        allh = self._load('hir.json')
        self.hir = {h['path']: h for h in allh if h.get('item') != 'const'}
        self.consts = {h['path']: h for h in allh if h.get('item') == 'const'}
        self.mir = {}
        for m in self._load('mir.json'):
            self.mir[m['path']] = m
        mono = self._load('mono.json')
        self.instances = mono['instances']
        self.mono_edges = mono['edges']
        self.mono_roots = mono['roots']
        self._succ = None
        self._inst_by_def = None

    def _load(self, name):
        with open(os.path.join(self.dir, name)) as f:
            return json.load(f)

    # ---------------- ADTs -----------------
    def adt(self, path):
        return self.adts.get(path)

    def variants(self, path):
        a = self.adts.get(path)
        if not a:
            return None
        return a['variants']

    def variant(self, path, vname):
        for v in self.variants(path) or []:
            if v['name'] == vname:
                return v
        return None

    # ---------------- mono call graph -----------------
    def inst_succ(self):
        if self._succ is None:
            s = {}
            for e in self.mono_edges:
                s.setdefault(e[0], []).append(e)
            self._succ = s
        return self._succ

    def insts_of(self, defpath):
        if self._inst_by_def is None:
            d = {}
            for i, inst in enumerate(self.instances):
                d.setdefault(inst['def'], []).append(i)
            self._inst_by_def = d
        return self._inst_by_def.get(defpath, [])

    def reach_insts(self, start_ids, stop=None, edge_filter=None):
        """Instances reachable from start_ids (inclusive)."""
        succ = self.inst_succ()
        seen = set(start_ids)
        work = list(start_ids)
        while work:
            i = work.pop()
            if stop and stop(i):
                continue
            for e in succ.get(i, []):
                if edge_filter and not edge_filter(e):
                    continue
                if e[1] not in seen:
                    seen.add(e[1])
                    work.append(e[1])
        return seen

    def reach_defs(self, start_ids, **kw):
        return {self.instances[i]['def'] for i in self.reach_insts(start_ids, **kw)}

    def calls_from_block(self, inst_id, bb):
        return [e for e in self.inst_succ().get(inst_id, []) if e[3] == bb]


def strip_ty(ty):
    """'&mut ir::Value' -> 'ir::Value'; drops refs, generics kept."""
    t = ty.strip()
    while True:
        if t.startswith('&'):
            t = t[1:].lstrip()
            if t.startswith("'"):
                t = re.sub(r"^'\w+\s*", '', t)
            if t.startswith('mut '):
                t = t[4:]
            continue
        break
    return t


def ty_head(ty):
    """'std::option::Option<ty::ValType>' -> 'std::option::Option'."""
    t = strip_ty(ty)
    i = t.find('<')
    return t if i < 0 else t[:i]


def ty_args(ty):
    """top-level generic args of a type string."""
    t = strip_ty(ty)
    i = t.find('<')
    if i < 0 or not t.endswith('>'):
        return []
    inner = t[i + 1:-1]
    out, depth, cur = [], 0, ''
    for ch in inner:
        if ch in '<([':
            depth += 1
        elif ch in '>)]':
            depth -= 1
        if ch == ',' and depth == 0:
            out.append(cur.strip())
            cur = ''
        else:
            cur += ch
    if cur.strip():
        out.append(cur.strip())
    return out
