"""Shared evaluation of the section parsers (Module::parse_*) and section emitters
(impl Emit for Module*): worlds with the records they allocate, the index-map
pushes they perform and the wasm-encoder section calls they make."""
import re
from heval import Evaluator, Policy, EvalError, sym, show, cfield, subterms
from adtwalk import peel

EFFECTS = [r'id_arena::Arena::alloc$', r'parse::IndicesToIds::push_', r'emit::IdsToIndices::(push_|set_data_index)',
           r'wasm_encoder::\w+Section::\w+$', r'wasm_encoder::Module::section$', r'HashSet::insert$',
           r'arena_set::ArenaSet::insert$', r'wasm_encoder::CodeSection::', r'wasm_encoder::Function::']


def _awi(st, args, node):
    nid = ('call', 'next_id', (args[0],))
    v = st.apply(args[1], [nid], node)
    st.effect('call', 'id_arena::Arena::alloc', (args[0], v), node)
    return nid


def policy(extra_effects=(), extra_stubs=None, no_inline=()):
    stubs = {'id_arena::Arena::alloc_with_id': _awi,
             'id_arena::Arena::next_id': lambda st, a, n: ('call', 'next_id', (a[0],))}
    if extra_stubs:
        stubs.update(extra_stubs)
    ni = set(no_inline)
    return Policy(effects=EFFECTS + list(extra_effects),
                  inline=lambda p: not (p.startswith('parse::IndicesToIds') or p.startswith('emit::IdsToIndices') or p in ni),
                  stubs=stubs)


_cache = {}


def name_section_emitter(F):
    """path of the function that builds the name section (found by what it does, not by what it is called)"""
    from cfg import callee_name
    from heval import norm_path
    for p, b in F.mir.items():
        if '{closure' in p:
            continue
        for blk in b['blocks']:
            t = blk['term']
            if t.get('t') == 'Call' and norm_path(callee_name(t) or '').endswith('wasm_encoder::NameSection::new'):
                return p
    return None


def worlds_of(F, fn_suffix, args, pol=None, key=None):
    """evaluate the unique fn whose path ends with fn_suffix"""
    ck = (id(F), fn_suffix, key)
    if ck in _cache:
        return _cache[ck]
    cands = [p for p in F.hir if p == fn_suffix or p.endswith('::' + fn_suffix)]
    if len(cands) != 1:
        raise KeyError('function %s not found (or ambiguous: %d)' % (fn_suffix, len(cands)))
    ev = Evaluator(F, pol or policy())
    ws = ev.run_fn(cands[0], args)
    _cache[ck] = (cands[0], ws)
    return _cache[ck]


def allocs(w):
    """[(arena_field_name, record term, id term)] allocated in a world"""
    out = []
    for e in w.trace:
        if e['kind'] == 'call' and e['callee'].endswith('id_arena::Arena::alloc'):
            arena = show(e['args'][0])
            m = re.search(r'\.(\w+)\.arena', arena)
            name = m.group(1) if m else arena
            rec = e['args'][1]
            out.append((name, rec, e))
    return out


def pushes(w, side):
    pre = 'parse::IndicesToIds::push_' if side == 'parse' else 'emit::IdsToIndices::'
    out = []
    for e in w.trace:
        if e['kind'] == 'call' and e['callee'].startswith(pre):
            out.append((e['callee'].split('::')[-1], e))
    return out


def reorders(w, coll):
    """in-place reorderings (sort*, reverse) of the collection term `coll` recorded in world w"""
    cs = show(coll)
    return [e for e in w.trace if e['kind'] == 'reorder' and show(e['args'][0]) == cs]


def section_calls(w):
    out = []
    for e in w.trace:
        if e['kind'] == 'call' and re.search(r'wasm_encoder::\w+Section::\w+$', e['callee']) and not e['callee'].endswith('::new'):
            out.append(e)
    return out


def subst_root(t, root, rec):
    """replace projections of `root` by the fields of the record constructor `rec`"""
    if not isinstance(t, tuple) or not t:
        return t
    if t == root:
        return rec
    if t[0] == 'field':
        base = subst_root(t[1], root, rec)
        if base[0] == 'ctor':
            v = cfield(base, t[2])
            if v is not None:
                return v
            # enum payload access 'Variant.field'
            if '.' in t[2]:
                var, f = t[2].split('.', 1)
                if base[2] == var:
                    v = cfield(base, f)
                    if v is not None:
                        return v
        return ('field', base, t[2])
    if t[0] == 'ctor':
        return ('ctor', t[1], t[2], tuple((f, subst_root(v, root, rec)) for f, v in t[3]))
    if t[0] in ('tup', 'list'):
        return (t[0], tuple(subst_root(x, root, rec) for x in t[1]))
    if t[0] == 'call':
        return ('call', t[1], tuple(subst_root(x, root, rec) for x in t[2]))
    if t[0] in ('ok', 'elem'):
        return (t[0], subst_root(t[1], root, rec))
    if t[0] == 'cast':
        return ('cast', subst_root(t[1], root, rec), t[2], t[3])
    if t[0] == 'bin':
        return ('bin', t[1], subst_root(t[2], root, rec), subst_root(t[3], root, rec))
    if t[0] == 'un':
        return ('un', t[1], subst_root(t[2], root, rec))
    if t[0] == 'seq':
        return ('seq', subst_root(t[1], root, rec), subst_root(t[2], root, rec))
    return t


def rec_root(t):
    """strip named-field projections: the record value a projection starts from"""
    while isinstance(t, tuple) and t and t[0] == 'field' and not t[2].isdigit():
        t = t[1]
    return t


def record_roots(t):
    """record values (arena elements) that t projects fields out of"""
    roots = {}
    for x in subterms(t):
        if isinstance(x, tuple) and x and x[0] == 'field' and not x[2].isdigit():
            r = rec_root(x)
            if 'arena' in show(r) and r[0] != 'sym':
                roots[r] = roots.get(r, 0) + 1
    # keep only outermost records (a record reached through another record's field is not a root itself)
    return roots


def world_agrees(w, root, rec):
    """the emit world's assumptions about fields of `root` agree with the concrete record `rec`"""
    for k, v in w.assumptions:
        if isinstance(k, tuple) and k and k[0] == 'atom':
            t = subst_root(k[1], root, rec)
            # atoms like is_none(rec.import) become decidable
            if t[0] == 'call' and t[1].endswith('is_none') and t[2][0][0] == 'ctor':
                if (t[2][0][2] == 'None') != v:
                    return False
            if t[0] == 'call' and t[1].endswith('is_some') and t[2][0][0] == 'ctor':
                if (t[2][0][2] == 'Some') != v:
                    return False
            continue
        if not (isinstance(v, tuple) and v and v[0] == 'ctor'):
            continue
        if rec_root(k) != root or k == root:
            continue
        val = subst_root(k, root, rec)
        if val[0] == 'ctor' and val[2] != v[2]:
            return False
    return True


def cond_text(w):
    out = []
    for k, v in w.assumptions:
        if isinstance(k, tuple) and k and k[0] == 'atom':
            out.append('%s=%s' % (show(k[1]), v))
        elif isinstance(v, tuple) and v and v[0] == 'ctor':
            out.append('%s is %s' % (show(k), v[2]))
    return '; '.join(out)


def position_counter(idx, item, ups=None):
    """Recognise "idx is the position of item in a walk over S, counted from k": returns (S, k) or None.
    Forms: a counter local (loopvar from k, +1 per iteration; `ups` = loop_update effects by name),
    zip with an unbounded range in either order, enumerate()."""
    from heval import lit
    def rng_start(t):
        if isinstance(t, tuple) and t and t[0] == 'ctor' and t[2] == 'RangeFrom':
            for k, v in t[3]:
                if k == 'start':
                    return v
        return None
    # zip forms
    if isinstance(idx, tuple) and idx[0] == 'field' and isinstance(idx[1], tuple) and idx[1][0] == 'elem':
        z = idx[1][1]
        if isinstance(z, tuple) and z[0] == 'call' and z[1].split('::')[-1] == 'zip' and len(z[2]) == 2:
            a, b = z[2]
            which = idx[2]
            other = '1' if which == '0' else '0'
            rng, coll = (a, b) if which == '0' else (b, a)
            k = rng_start(rng)
            if k is not None and item == ('field', idx[1], other):
                return coll, k
        return None
    # enumerate
    if isinstance(idx, tuple) and idx[0] == 'call' and idx[1] == 'enumerate_index' and isinstance(item, tuple) and item[0] == 'elem':
        return idx[2][0], lit(0, 'usize')
    # counter local
    if isinstance(idx, tuple) and idx[0] == 'call' and idx[1] == 'loopvar' and isinstance(item, tuple) and item[0] == 'elem' \
            and item[1] == idx[2][0]:
        name = idx[2][2][1]
        up = (ups or {}).get(name)
        if up is not None and up['args'][1][0] == 'bin' and up['args'][1][1] == 'Add' and up['args'][1][2] == idx \
                and up['args'][1][3][0] == 'lit' and up['args'][1][3][1] == 1:
            return idx[2][0], idx[2][1]
    return None


def emit_self(F, map_value=None):
    """a symbolic `Emit` visitor (function-body encoder) whose fields are recognised by their types, not their names"""
    from heval import ctor, sym, NONE
    path = [k for k in F.adts if k.endswith('local_function::emit::Emit')]
    if not path:
        raise KeyError('struct Emit of the function-body encoder not found')
    a = F.adts[path[0]]
    fields = []
    unknown = []
    for f in a['variants'][0]['fields']:
        ty = f['ty']
        if 'IdsToIndices' in ty:
            v = sym('eindices')
        elif 'HashMap<id_arena::Id<ir::Local>' in ty:
            v = sym('local_indices')
        elif ty.endswith('Vec<id_arena::Id<ir::InstrSeq>>'):
            v = sym('blocks')
        elif ty.endswith('Vec<ir::BlockKind>'):
            v = sym('block_kinds')
        elif 'wasm_encoder::Function' in ty:
            v = sym('encoder')
        elif ty.startswith('std::option::Option<') and 'InstrLocId' in ty:
            v = map_value if map_value is not None else NONE
        else:
            unknown.append(f['name'])
            v = sym(f['name'])
        fields.append((f['name'], v))
    return path[0], ctor(path[0], a['variants'][0]['name'], fields), unknown


def loop_instances(trace):
    """id(event) -> tuple of the positions of the loop_begin events enclosing it: two events with the same tuple ran in the
    same generic iteration of the same loop *instance* (two consecutive loops over the same collection differ)"""
    out = {}
    stack = []
    for i, e in enumerate(trace):
        if e['kind'] == 'loop_begin':
            stack.append(i)
        elif e['kind'] == 'loop_end':
            if stack:
                stack.pop()
        else:
            out[id(e)] = tuple(stack)
    return out
