"""A small abstract interpreter over constructor terms for the resolved HIR.

Purpose: turn table-shaped code (big matches, record constructors, iterator
chains) into finite maps *without running it*.  Values are terms:

  ('sym', name, ty)                     symbolic input
  ('ctor', adt, variant, ((f, t), ..))  enum variant / struct value (tuple fields "0","1",..)
  ('lit', v, ty)                        literal (int/bool/str)
  ('tup', (t, ..))                      tuple
  ('list', (t, ..))                     concrete short list (slice/Vec of known length)
  ('call', path, (t, ..))               uninterpreted application (foreign or non-inlined fn)
  ('ok', t)                             success payload of a fallible uninterpreted value
  ('field', t, name)                    projection out of an opaque term
  ('cast', t, from, to)                 `as`
  ('bin', op, a, b) / ('un', op, a)     arithmetic on opaque terms
  ('seq', src, elem)                    an iterator/collection whose items are `elem`,
                                        a term over ('elem', src)
  ('elem', src)                         the generic item of `src`
  ('closure', key)                      closure value (body kept in a side table)
  ('unknown', why)

Unknown scrutinees are case-split by *restart*: evaluation raises NeedSplit, the
driver adds one assumption per alternative and re-evaluates from scratch, so
every result ("world") comes with the list of assumptions it holds under.
"""
import re
import sys
sys.setrecursionlimit(50000)
from facts import strip_ty, ty_head, ty_args

OPTION = 'std::option::Option'
RESULT = 'std::result::Result'

INT_BITS = {'u8': 8, 'u16': 16, 'u32': 32, 'u64': 64, 'u128': 128, 'usize': 64,
            'i8': 8, 'i16': 16, 'i32': 32, 'i64': 64, 'i128': 128, 'isize': 64}


def is_int_ty(t):
    return t in INT_BITS


def wrap_int(v, ty):
    bits = INT_BITS.get(ty)
    if bits is None:
        return v
    v &= (1 << bits) - 1
    if ty.startswith('i') and v >= (1 << (bits - 1)):
        v -= (1 << bits)
    return v


def norm_path(p):
    """strip generic argument segments: 'std::result::Result::<T, E>::unwrap' -> 'std::result::Result::unwrap'
    (but keep '<impl X>' path segments)"""
    if p is None:
        return None
    out, i = [], 0
    n = len(p)
    while i < n:
        if p.startswith('::<', i) and not p.startswith('::<impl ', i):
            depth, i = 1, i + 3
            while i < n and depth > 0:
                if p[i] == '<':
                    depth += 1
                elif p[i] == '>' and p[i - 1] != '-':
                    depth -= 1
                i += 1
            continue
        out.append(p[i])
        i += 1
    return ''.join(out)


class NeedSplit(Exception):
    def __init__(self, key, options, why=''):
        self.key = key          # hashable
        self.options = options  # list of replacement terms (or bools for atoms)
        self.why = why


class ReturnEx(Exception):
    def __init__(self, v):
        self.v = v


class BreakEx(Exception):
    def __init__(self, target, v):
        self.target = target
        self.v = v


class ContinueEx(Exception):
    def __init__(self, target=None):
        self.target = target


class PanicEx(Exception):
    def __init__(self, why, line=None):
        self.why = why
        self.line = line


class Pruned(Exception):
    """this world produces no item (filtered out by filter/filter_map)"""
    def __init__(self, why=''):
        self.why = why


class EvalError(Exception):
    pass


UNIT = ('tup', ())


def lit(v, ty=''):
    return ('lit', v, ty)


def sym(name, ty=''):
    return ('sym', name, ty)


def ctor(adt, variant, fields):
    if isinstance(fields, dict):
        fields = tuple(fields.items())
    return ('ctor', adt, variant, tuple(fields))


def some(v):
    return ctor(OPTION, 'Some', (('0', v),))


NONE = ctor(OPTION, 'None', ())


def ok(v):
    return ctor(RESULT, 'Ok', (('0', v),))


def err(v):
    return ctor(RESULT, 'Err', (('0', v),))


def cfield(c, name):
    for k, v in c[3]:
        if k == name:
            return v
    return None


def show(t, depth=0):
    if not isinstance(t, tuple) or not t:
        return repr(t)
    k = t[0]
    if k == 'sym':
        return t[1]
    if k == 'lit':
        return repr(t[1])
    if k == 'ctor':
        name = t[1].split('::')[-1] + '::' + t[2]
        if not t[3]:
            return name
        if all(f.isdigit() for f, _ in t[3]):
            return name + '(' + ', '.join(show(v) for _, v in t[3]) + ')'
        return name + '{' + ', '.join('%s: %s' % (f, show(v)) for f, v in t[3]) + '}'
    if k == 'tup':
        return '(' + ', '.join(show(x) for x in t[1]) + ')'
    if k == 'list':
        return '[' + ', '.join(show(x) for x in t[1]) + ']'
    if k == 'call':
        return t[1].split('::')[-1] + '(' + ', '.join(show(x) for x in t[2]) + ')'
    if k == 'ok':
        return show(t[1]) + '!'
    if k == 'field':
        return show(t[1]) + '.' + t[2]
    if k == 'cast':
        return '(%s as %s)' % (show(t[1]), t[3])
    if k == 'bin':
        return '(%s %s %s)' % (show(t[2]), t[1], show(t[3]))
    if k == 'un':
        return '%s(%s)' % (t[1], show(t[2]))
    if k == 'seq':
        return 'seq[%s | %s]' % (show(t[2]), show(t[1]))
    if k == 'elem':
        return 'elem(%s)' % show(t[1])
    if k == 'closure':
        return '<closure %s>' % (t[1],)
    if k == 'unknown':
        return '?' + str(t[1])
    return repr(t)


def strip_after(t):
    """peel the 'possibly mutated by an uninterpreted call' wrappers"""
    while isinstance(t, tuple) and t and t[0] == 'call' and t[1] in ('after', 'loop_carried', 'loop_result') and len(t[2]) >= 2:
        t = t[2][0] if t[1] == 'after' else t[2][1]
    return t


def subterms(t):
    yield t
    if isinstance(t, tuple):
        for x in t[1:]:
            if isinstance(x, tuple):
                if x and isinstance(x[0], str):
                    yield from subterms(x)
                else:
                    for y in x:
                        if isinstance(y, tuple):
                            if len(y) == 2 and isinstance(y[0], str) and isinstance(y[1], tuple):
                                yield from subterms(y[1])
                            else:
                                yield from subterms(y)


def syms_of(t):
    return {x[1] for x in subterms(t) if isinstance(x, tuple) and x and x[0] == 'sym'}


class World:
    def __init__(self, assumptions, value, trace, outcome, notes):
        self.assumptions = assumptions   # list of (key, chosen)
        self.value = value
        self.trace = trace               # list of dict(kind, callee, args, line, loops)
        self.outcome = outcome           # 'return' | 'panic' | 'pruned'
        self.notes = notes

    def effects(self, pred=None):
        return [e for e in self.trace if pred is None or pred(e)]


class Policy:
    """What to inline, what to keep uninterpreted, what to record as an effect."""
    def __init__(self, inline=None, no_inline=(), effects=(), max_depth=8, stubs=None, atom_hint=None, loop_cut=None,
                 split_try=None):
        self.split_try = split_try    # 'option' | 'all': `x?` on an opaque Option (/Result) explores the early-return world too
        self.loop_cut = loop_cut      # int: a plain `loop` is unrolled this many times, longer runs are pruned (bounded unrolling)
        self.atom_hint = atom_hint    # fn(term) -> bool|None : fix the truth of some conditions instead of splitting
        self.inline = inline          # None = every in-crate fn with HIR; else predicate(path)
        self.stubs = stubs or {}      # normalised path -> fn(state, args, node) -> term
        self.no_inline = set(no_inline)
        self.effects = effects        # predicate(path) or iterable of regex
        self.max_depth = max_depth
        self.demoted = set()          # helpers that stopped being looked through after a world explosion (see Evaluator.run)
        self.inlined_queries = {}     # canonical path -> branch weight of read-only same-file helpers that were inlined

    def is_effect(self, path):
        if callable(self.effects):
            return self.effects(path)
        return any(re.search(p, path) for p in self.effects)

    def should_inline(self, path, depth):
        if path in self.no_inline or depth >= self.max_depth:
            return False
        if self.inline is None:
            return True
        return self.inline(path)


def file_of(F, path):
    """source file a function (or a closure inside it) is written in"""
    q = path
    while q and q not in F.fns and '::{closure' in q:
        q = q[:q.rindex('::{closure')]
    f = F.fns.get(q)
    if f is None:
        h = F.hir.get(path)
        sp = (h or {}).get('sp', '') if isinstance(h, dict) else ''
        return sp.split(':')[0] if sp else None
    return (f.get('sp') or '').split(':')[0] or None


_branch_cache = {}


def branch_count(F, path):
    """number of branching constructs (if / match / loops) in a function body, closures included"""
    key = (id(F), path)
    if key in _branch_cache:
        return _branch_cache[key]
    n = [0]

    def walk(x):
        if isinstance(x, dict):
            k = x.get('k')
            if k in ('If', 'Loop'):
                n[0] += 1
            elif k == 'Match' and x.get('src', 'Normal') == 'Normal':
                n[0] += max(1, len(x.get('arms', [])) - 1)
            for v in x.values():
                walk(v)
        elif isinstance(x, list):
            for v in x:
                walk(v)
    h = F.hir.get(path)
    if h:
        walk(h.get('body'))
    _branch_cache[key] = n[0]
    return n[0]


def local_policy(F, root, events=(), keep=(), also_inline=(), public_events=False, max_branches=16,
                 keep_param_types=('wasmparser::NameSectionReader',), **kw):
    """The policy the rules use to look *through* helper functions: every function written in the same source
    file as `root` (helpers extracted next to it, private methods, closures) is inlined, whatever its name or
    visibility; calls matching `events` are kept opaque and recorded in the trace; calls matching `keep` are
    kept opaque without being recorded.  Functions of other files stay opaque unless `also_inline` matches.
    This makes a rule's verdict independent of how the code under analysis is split into helpers."""
    rf = file_of(F, root)
    if not hasattr(F, '_norm_hir'):
        F._norm_hir = {}
        for k in F.hir:
            F._norm_hir.setdefault(norm_path(k), k)

    def canon_path(p):
        return p if p in F.hir else F._norm_hir.get(p, F._norm_hir.get(norm_path(p), p))
    ev = [re.compile(x) for x in events]
    kp = [re.compile(x) for x in keep]
    ai = [re.compile(x) for x in also_inline]

    if not hasattr(F, '_section_builders'):
        # functions that create a whole wasm_encoder section value are emit steps of their own
        F._section_builders = set()
        for q, b in F.mir.items():
            if '{closure' in q:
                continue
            for blk in b['blocks']:
                t = blk['term']
                if t.get('t') == 'Call':
                    k = (t.get('func') or {}).get('k') or {}
                    fn = k.get('resolved') or k.get('fn') or ''
                    if re.search(r'wasm_encoder::\w*Section::new$', norm_path(fn)):
                        F._section_builders.add(norm_path(q))

    def typed_step(p):
        """a function that consumes a whole section reader, or builds a whole section, is a step of its own, however
        small it is"""
        if norm_path(p) in F._section_builders and norm_path(p) != norm_path(root):
            return True
        h = F.hir.get(p)
        if not h or not keep_param_types:
            return False
        return any(any(t in (prm.get('ty') or '') for t in keep_param_types) for prm in h.get('params', []))

    def is_public(p):
        f = F.fns.get(p)
        return bool(f) and f.get('vis') == 'Public' and f.get('kind') in ('Fn', 'AssocFn')

    def small_foreign(p):
        """a crate-internal (not `pub`) function of another file that is a small read-only helper - a predicate, an
        accessor, a lookup: looked through like a same-file helper, wherever a maintainer put it"""
        h = F.hir.get(p)
        f = F.fns.get(p)
        if h is None or f is None or f.get('vis') == 'Public' or '{closure' in p:
            return False
        if file_of(F, p) == rf or typed_step(p) or branch_count(F, p) > 3:
            return False
        # only predicates and id lookups: what they return is a fact about their arguments, not a new object
        m = F.mir.get(p)
        rty = (m['locals'][0].get('ty') or '') if m and m.get('locals') else ''
        if not (rty == 'bool' or re.match(r'^(std::option::Option<)?(&)?id_arena::Id<[^<>]+>>?$', rty)):
            return False
        return not any('&mut' in (prm.get('ty') or '') or "mut " in (prm.get('ty') or '')[:12] for prm in h.get('params', []))

    def read_only(p):
        h = F.hir.get(p)
        return bool(h) and not any('&mut' in (prm.get('ty') or '') or 'mut ' in (prm.get('ty') or '')[:12] for prm in h.get('params', []))

    def is_event(p):
        if any(r.search(p) for r in ev):
            return True
        p = canon_path(p)
        if p in pol.demoted:
            return True
        if small_foreign(p):
            return False
        # with public_events, the crate's public API (and everything outside the crate except std) is the
        # vocabulary of the trace; private / pub(crate) helpers are looked through
        if public_events and p != root:
            if p in F.hir:
                if any(r.search(p) for r in ai):
                    return False
                if is_public(p) or file_of(F, p) != rf:
                    return True
                return '{closure' not in p and (branch_count(F, p) > max_branches or typed_step(p))
            return not (p.startswith('std::') or p.startswith('log::') or p.startswith('anyhow::'))
        return False

    def inline(p):
        if is_event(p) or any(r.search(p) for r in kp):
            return False
        p = canon_path(p)
        if any(r.search(p) for r in ai):
            return True
        if small_foreign(p):
            return True
        if not (p in F.hir and file_of(F, p) == rf):
            return False
        # a helper is glue; a function with a large decision structure of its own is a step, not glue
        return '{closure' in p or (branch_count(F, p) <= max_branches and not typed_step(p))
    pol = Policy(effects=is_event, inline=inline, **kw)
    return pol


PANIC_FNS = ('std::panicking::', 'std::rt::begin_panic', 'std::rt::panic_fmt', 'std::process::abort',
             'std::option::unwrap_failed', 'std::result::unwrap_failed', 'std::option::expect_failed',
             'std::rt::panic_display', 'std::intrinsics::unreachable', 'std::intrinsics::abort')


SOFT_WORLDS = 250


class Evaluator:
    def __init__(self, facts, policy=None, max_worlds=4096):
        self.f = facts
        self.policy = policy or Policy()
        self.max_worlds = max_worlds

    # ------------------------------------------------------------------ driver
    def run_fn(self, path, args, assumptions=None):
        """Evaluate fn `path` on argument terms; returns list of World."""
        # helpers that had to be made opaque when this root was evaluated before (see run) stay opaque: no second explosion
        memo = self.f.__dict__.setdefault('_demoted_for', {})
        self.policy.demoted |= memo.get(path, set())
        try:
            return self.run(lambda st: st.call_path(path, list(args), None), assumptions)
        finally:
            if self.policy.demoted:
                memo.setdefault(path, set()).update(self.policy.demoted)

    def run_node(self, fn_path, node, env, assumptions=None):
        """evaluate one HIR node of fn_path in a prepared environment (local id -> term)"""
        def thunk(st):
            from copy import copy
            e2 = dict(env)
            st.frames.append(Frame(fn_path, e2))
            if node.get('k') == 'Block' and 'stmts' in node:
                return st.block(node, e2)
            return st.expr(node, e2)
        return self.run(thunk, assumptions)

    def run(self, thunk, assumptions=None):
        """all worlds of `thunk`.  When the exploration explodes and the policy has looked through read-only helper
        functions written next to the root (queries: every parameter a shared reference), the one with the largest
        decision structure is made a step of its own (an opaque, recorded call) and the evaluation starts over: such a
        helper cannot change what the caller holds, only its result matters."""
        for _ in range(4):
            try:
                return self.run_once(thunk, assumptions)
            except EvalError as e:
                pol = self.policy
                cands = {p: w for p, w in getattr(pol, 'inlined_queries', {}).items() if p not in pol.demoted and w >= 4}
                if 'too many worlds' not in str(e) or not cands:
                    raise
                pol.demoted.add(max(sorted(cands), key=lambda p: cands[p]))
        return self.run_once(thunk, assumptions)

    def run_once(self, thunk, assumptions=None):
        worlds = []
        stack = [list(assumptions or [])]
        while stack:
            if len(worlds) + len(stack) > self.max_worlds:
                raise EvalError('too many worlds')
            if len(worlds) + len(stack) > SOFT_WORLDS and any(w >= 10 and q not in self.policy.demoted
                                                              for q, w in self.policy.inlined_queries.items()):
                # a large read-only helper is being looked through and the exploration is already big: stop early,
                # run() makes that helper a step of its own and starts over
                raise EvalError('too many worlds (early)')
            asm = stack.pop()
            st = State(self, asm)
            try:
                v = thunk(st)
                worlds.append(World(asm, v, st.trace, 'return', st.notes))
            except ReturnEx as r:
                worlds.append(World(asm, r.v, st.trace, 'return', st.notes))
            except PanicEx as p:
                st.notes.append(('panic', p.why, p.line))
                worlds.append(World(asm, None, st.trace, 'panic', st.notes))
            except Pruned as p:
                worlds.append(World(asm, None, st.trace, 'pruned', st.notes))
            except NeedSplit as ns:
                for opt in reversed(ns.options):
                    stack.append(asm + [(ns.key, opt)])
        return worlds


class Frame:
    def __init__(self, path, env):
        self.path = path
        self.env = env


class State:
    def __init__(self, ev, assumptions):
        self.ev = ev
        self.f = ev.f
        self.policy = ev.policy
        self.asm = dict(assumptions)
        self.trace = []
        self.notes = []
        self.closures = {}
        self.mutseq = 0
        self.last_opaque = None
        self.mutcalls = {}
        self.depth = 0
        self.loops = []      # stack of loop source terms we are (symbolically) inside
        self.frames = []
        self.fresh = 0

    # -------------------------------------------------------------- helpers
    def refine(self, v):
        """apply assumptions to an opaque value"""
        seen = 0
        while isinstance(v, tuple) and v and v[0] not in ('ctor', 'lit', 'tup', 'list') and v in self.asm and seen < 8:
            v = self.asm[v]
            seen += 1
        return v

    def effect(self, kind, callee, args, node):
        self.trace.append({'kind': kind, 'callee': callee, 'args': tuple(args), 'line': node.get('l') if node else None,
                           'loops': tuple(self.loops), 'fn': self.frames[-1].path if self.frames else None})

    def note(self, *a):
        self.notes.append(a)

    def adt_of_ty(self, ty):
        if not ty:
            return None
        return ty_head(ty)

    def split_enum(self, v, ty, why=''):
        """v is opaque, of enum type ty: case split on its variant."""
        head = self.adt_of_ty(ty)
        if head in (OPTION, 'core::option::Option'):
            opts = [NONE, some(('ok', v))]
            raise NeedSplit(v, opts, why)
        if head in (RESULT, 'core::result::Result'):
            opts = [ok(('ok', v)), err(('field', v, 'err'))]
            raise NeedSplit(v, opts, why)
        if head == 'bool':
            raise NeedSplit(v, [lit(True, 'bool'), lit(False, 'bool')], why)
        adt = self.f.adt(head) if head else None
        if not adt or adt['kind'] != 'enum':
            raise EvalError('cannot split value %s of type %r (%s)' % (show(v), ty, why))
        opts = []
        for var in adt['variants']:
            fields = []
            for i, fd in enumerate(var['fields']):
                fname = fd['name']
                fields.append((fname, ('field', v, var['name'] + '.' + fname)))
            opts.append(ctor(head, var['name'], fields))
        raise NeedSplit(v, opts, why)

    def truth(self, v, node=None):
        v = self.refine(v)
        if v[0] == 'lit' and isinstance(v[1], bool):
            return v[1]
        key = ('atom', v)
        if key in self.asm:
            self.asm_hits = getattr(self, 'asm_hits', 0) + 1
            self.last_atom = v
            return self.asm[key]
        if self.policy.atom_hint is not None:
            h = self.policy.atom_hint(v)
            if h is not None:
                self.asm[key] = h
                self.notes.append(('hint', v, h))
                return h
        raise NeedSplit(key, [True, False], 'condition')

    # -------------------------------------------------------------- calls
    def call_path(self, path, args, node):
        hir = self.f.hir.get(path)
        if hir is None:
            raise EvalError('no HIR for ' + path)
        env = {}
        fr = Frame(path, env)
        fr.argty = {}
        if node is not None:
            anodes = []
            if node.get('k') == 'MethodCall':
                anodes = [node.get('recv')] + list(node.get('args', []))
            elif node.get('k') == 'Call':
                anodes = list(node.get('args', []))
            for pp, an in zip(hir['params'], anodes):
                if pp.get('k') == 'Bind' and an is not None:
                    t = an.get('ty')
                    if an.get('k') == 'Path' and an.get('res') == 'local' and self.frames and \
                            an.get('id') in getattr(self.frames[-1], 'argty', {}):
                        t = self.frames[-1].argty[an['id']]
                    if t:
                        fr.argty[pp['id']] = t
        self.frames.append(fr)
        self.depth += 1
        try:
            params = hir['params']
            if len(params) != len(args):
                raise EvalError('arity mismatch calling %s' % path)
            for p, a in zip(params, args):
                if not self.match(p, a, env, irrefutable=True):
                    raise EvalError('param pattern mismatch in ' + path)
            try:
                try:
                    return self.expr(hir['body'], env)
                except ReturnEx as r:
                    return r.v
            finally:
                self.write_back(hir, env, node)
        finally:
            self.depth -= 1
            self.frames.pop()

    def write_back(self, hir, env, node):
        """after an inlined call: a parameter that received `&mut local` and was assigned/pushed in the callee
        is copied back to the caller's local"""
        if node is None or len(self.frames) < 2:
            return
        caller_env = self.frames[-2].env
        anodes = []
        if node.get('k') == 'MethodCall':
            anodes = [node.get('recv')] + list(node.get('args', []))
        elif node.get('k') == 'Call':
            anodes = list(node.get('args', []))
        for pp, an in zip(hir['params'], anodes):
            if pp.get('k') != 'Bind' or an is None:
                continue
            n = an
            explicit = False
            while n.get('k') == 'AddrOf':
                explicit = explicit or n.get('mut')
                n = n['e']
            if not explicit and not (an is node.get('recv') and (node.get('recv_ty') or '').startswith('&mut')):
                continue
            if n.get('k') == 'Path' and n.get('res') == 'local' and not (n.get('ty') or '').startswith('&'):
                if pp['id'] in env and n['id'] in caller_env and env[pp['id']] != caller_env[n['id']]:
                    caller_env[n['id']] = env[pp['id']]

    def call_closure(self, cv, args, node):
        key = cv[1]
        c, env, frame = self.closures[key]
        params = c['params']
        if len(params) != len(args):
            raise EvalError('closure arity mismatch')
        for p, a in zip(params, args):
            if not self.match(p, a, env, irrefutable=True):
                raise EvalError('closure param mismatch')
        if frame is not None:
            self.frames.append(frame)
        try:
            try:
                return self.expr(c['body'], env)
            except ReturnEx as r:
                return r.v
        finally:
            if frame is not None:
                self.frames.pop()

    def resolve_impl(self, callee, trait, recv_ty, method):
        """trait method called on a concrete receiver: find the impl method path"""
        if callee in self.f.hir:
            # may be a trait default body; prefer a concrete impl if one exists
            pass
        if trait and recv_ty:
            st = strip_ty(recv_ty)
            cand = '<%s as %s>::%s' % (st, trait, method)
            if cand in self.f.hir:
                return cand
            # lifetimes / generics in self type: match on head
            head = ty_head(st)
            for p, fn in self.f.fns.items():
                if fn.get('impl_trait') == trait and p.endswith('::' + method) and fn.get('impl_self') \
                        and ty_head(fn['impl_self']) == head:
                    return p
        return callee

    def do_call(self, callee, args, node, trait=None, recv_ty=None, method=None):
        """callee: def path (or None); args: evaluated terms"""
        npath = norm_path(callee) if callee else None
        if npath is None:
            return ('unknown', 'indirect call')
        if npath.startswith('core::'):
            npath = 'std::' + npath[6:]
        elif npath.startswith('alloc::'):
            npath = 'std::' + npath[7:]
        if any(npath.startswith(p) for p in PANIC_FNS):
            raise PanicEx(node.get('mac', 'panic') if node else 'panic', node.get('l') if node else None)
        if npath in self.policy.stubs:
            return self.policy.stubs[npath](self, args, node)
        conv = self.local_conversion(npath, args, node, recv_ty)
        if conv is not None:
            return self.call_path(conv, args[:1], node)
        r = self.builtin(npath, args, node)
        if r is not NOTBUILTIN:
            return r
        target = callee
        if trait is not None:
            target = self.resolve_impl(callee, trait, recv_ty, method or callee.split('::')[-1])
        is_eff = self.policy.is_effect(norm_path(target))
        if norm_path(target) in self.policy.stubs:
            return self.policy.stubs[norm_path(target)](self, args, node)
        if target in self.policy.demoted:
            is_eff = True
        if target in self.f.hir and not is_eff and self.policy.should_inline(target, self.depth):
            if '{closure' not in target and target not in self.policy.inlined_queries and self.depth > 0:
                h = self.f.hir[target]
                if not any('&mut' in (prm.get('ty') or '') or 'mut ' in (prm.get('ty') or '')[:12] for prm in h.get('params', [])):
                    self.policy.inlined_queries[target] = branch_count(self.f, target)
            return self.call_path(target, args, node)
        if is_eff:
            self.effect('call', norm_path(target), args, node)
        r = ('call', norm_path(target), tuple(args))
        # a method with a `&mut self` receiver may return something new each time (readers, iterators,
        # pop): the 2nd, 3rd.. textually identical call in one world gets a distinguishing ordinal
        if recv_ty and recv_ty.startswith('&mut') and args:
            n = self.mutcalls.get(r, 0) + 1
            self.mutcalls[r] = n
            if n > 1:
                r = ('call', norm_path(target), tuple(args) + (('lit', n, '#nth'),))
        self.last_opaque = r
        return r

    def local_conversion(self, npath, args, node, recv_ty):
        """Into/From/TryInto/TryFrom whose target is a local type with a local impl: resolve to that impl"""
        table = {'std::convert::Into::into': ('From', 'from', False), 'std::convert::From::from': ('From', 'from', False),
                 'std::convert::TryInto::try_into': ('TryFrom', 'try_from', True),
                 'std::convert::TryFrom::try_from': ('TryFrom', 'try_from', True)}
        if npath not in table or node is None:
            return None
        tr, meth, fallible = table[npath]
        target = node.get('ty')
        if not target:
            return None
        if fallible:
            ta = ty_args(target)
            if not ta:
                return None
            target = ta[0]
        target = strip_ty(target)
        src = recv_ty
        if src is None and node.get('args'):
            src = node['args'][0].get('ty')
        if src is None and node.get('recv'):
            src = node['recv'].get('ty')
        # inside an inlined generic fn the receiver's declared type is a type parameter:
        # use the concrete type the caller passed
        rn = node.get('recv') if node.get('k') == 'MethodCall' else (node.get('args') or [None])[0]
        if rn is not None and rn.get('k') == 'Path' and rn.get('res') == 'local' and self.frames:
            at = getattr(self.frames[-1], 'argty', {})
            if rn.get('id') in at:
                src = at[rn['id']]
        if src is None:
            return None
        src = strip_ty(src)
        cand = '<%s as std::convert::%s<%s>>::%s' % (target, tr, src, meth)
        if cand in self.f.hir:
            return cand
        pre = '<%s as std::convert::%s<' % (target, tr)
        c = [p for p in self.f.hir if p.startswith(pre) and p.endswith('::' + meth) and ty_head(p[len(pre):]) == ty_head(src)]
        if len(c) == 1:
            return c[0]
        return None

    # -------------------------------------------------------------- builtins
    def int_builtin(self, p, args):
        """integer intrinsics on literal receivers (`x.ilog2()`, `x.trailing_zeros()`, ...): computed"""
        m = re.match(r'^std::num::<impl ([ui])(\d+|size)>::(\w+)$', p)
        if not m or not args or any(not (isinstance(x, tuple) and x[0] == 'lit' and isinstance(x[1], int) and not isinstance(x[1], bool))
                                    for x in args):
            return NOTBUILTIN
        signed, width, name = m.group(1) == 'i', (64 if m.group(2) == 'size' else int(m.group(2))), m.group(3)
        ty = m.group(1) + m.group(2)
        x = args[0][1]
        y = args[1][1] if len(args) > 1 else None
        lo, hi = (-(1 << (width - 1)), (1 << (width - 1)) - 1) if signed else (0, (1 << width) - 1)

        def opt(v):
            return some(lit(v, ty)) if v is not None and lo <= v <= hi else NONE
        if name == 'ilog2' and x > 0:
            return lit(x.bit_length() - 1, 'u32')
        if name == 'checked_ilog2':
            return some(lit(x.bit_length() - 1, 'u32')) if x > 0 else NONE
        if name == 'trailing_zeros':
            return lit(width if x == 0 else (x & -x).bit_length() - 1, 'u32')
        if name == 'leading_zeros' and x >= 0:
            return lit(width - x.bit_length(), 'u32')
        if name == 'count_ones' and x >= 0:
            return lit(bin(x).count('1'), 'u32')
        if name == 'is_power_of_two':
            return lit(x > 0 and x & (x - 1) == 0, 'bool')
        if name == 'next_power_of_two' and x >= 0:
            return lit(1 if x <= 1 else 1 << (x - 1).bit_length(), ty)
        if y is not None:
            if name == 'pow':
                return lit(x ** y, ty) if lo <= x ** y <= hi else NOTBUILTIN
            if name in ('min', 'max'):
                return lit(min(x, y) if name == 'min' else max(x, y), ty)
            if name in ('checked_add', 'checked_sub', 'checked_mul'):
                return opt({'checked_add': x + y, 'checked_sub': x - y, 'checked_mul': x * y}[name])
            if name in ('saturating_add', 'saturating_sub', 'saturating_mul'):
                v = {'saturating_add': x + y, 'saturating_sub': x - y, 'saturating_mul': x * y}[name]
                return lit(max(lo, min(hi, v)), ty)
            if name in ('wrapping_add', 'wrapping_sub', 'wrapping_mul') and not signed:
                v = {'wrapping_add': x + y, 'wrapping_sub': x - y, 'wrapping_mul': x * y}[name]
                return lit(v & hi, ty)
            if name in ('checked_shl', 'checked_shr'):
                if not 0 <= y < width:
                    return NONE
                return opt((x << y) & hi if name == 'checked_shl' else x >> y)
        return NOTBUILTIN

    def builtin(self, p, args, node):
        a = args
        r = self.int_builtin(p, [self.refine(x) for x in args]) if p.startswith('std::num::<impl ') else NOTBUILTIN
        if r is not NOTBUILTIN:
            return r
        last = p.split('::')[-1]
        recv = self.refine(a[0]) if a else None
        if p.startswith('std::bool::<impl bool>::') or p.startswith('core::bool::<impl bool>::'):
            # `cond.then_some(v)` / `cond.then(|| v)`
            if last in ('then_some', 'then') and len(a) == 2:
                if self.truth(recv):
                    return some(a[1] if last == 'then_some' else self.apply(a[1], [], node))
                return NONE
        if last == 'map' and 'array::<impl' in p and recv is not None and recv[0] == 'list' and len(a) == 2:
            # `[x, y].map(f)`: element-wise, in order
            return ('list', tuple(self.apply(a[1], [it], node) for it in recv[1]))
        if last == 'not' and len(a) == 1 and (p.endswith('ops::Not::not') or p.startswith('anyhow::')):
            # boolean negation spelt as a call (`anyhow::ensure!` goes through a helper fn)
            if recv[0] == 'lit' and isinstance(recv[1], bool):
                return lit(not recv[1], 'bool')
            if recv[0] == 'un' and recv[1] == 'Not':
                return recv[2]
            return ('un', 'Not', recv)
        is_opt = p.startswith('std::option::Option::') or p.startswith('core::option::Option::')
        is_res = p.startswith('std::result::Result::') or p.startswith('core::result::Result::')
        if is_opt or is_res:
            good = 'Some' if is_opt else 'Ok'
            bad = 'None' if is_opt else 'Err'
            if last in ('unwrap', 'expect', 'unwrap_or_else', 'unwrap_or', 'unwrap_or_default', 'unwrap_unchecked'):
                if recv[0] == 'ctor' and recv[2] == good:
                    return cfield(recv, '0')
                if recv[0] == 'ctor' and recv[2] == bad:
                    if last in ('unwrap', 'expect'):
                        raise PanicEx('unwrap on ' + bad, node.get('l') if node else None)
                    if last == 'unwrap_or':
                        return a[1]
                    if last == 'unwrap_or_else':
                        cl = a[1]
                        if cl[0] == 'closure':
                            return self.call_closure(cl, [] if is_opt else [cfield(recv, '0')], node)
                        return ('call', p, tuple(a))
                    return ('call', p, tuple(a))
                if last in ('unwrap', 'expect'):
                    self.note('may_panic', 'unwrap', node.get('l') if node else None)
                    return ('ok', recv)
                # unwrap_or* on opaque: split
                self.split_enum(recv, OPTION if is_opt else RESULT, 'unwrap_or')
            if last == 'or' and len(a) == 2:
                if recv[0] == 'ctor':
                    return recv if recv[2] == good else a[1]
                self.split_enum(recv, OPTION if is_opt else RESULT, 'or')
            if last in ('is_some', 'is_ok', 'is_none', 'is_err'):
                want_good = last in ('is_some', 'is_ok')
                if recv[0] == 'ctor':
                    return lit((recv[2] == good) == want_good, 'bool')
                return ('call', p, (recv,))
            if last in ('as_ref', 'as_mut', 'as_deref', 'as_deref_mut', 'cloned', 'copied', 'take'):
                if last == 'take' and self.policy.is_effect(p):
                    self.effect('call', p, a, node)
                return recv
            if last in ('is_some_and', 'is_ok_and', 'is_none_or') and len(a) == 2:
                if recv[0] != 'ctor':
                    self.split_enum(recv, OPTION if is_opt else RESULT, last)
                if recv[2] == good:
                    return lit(self.truth(self.apply(a[1], [cfield(recv, '0')], node)), 'bool')
                return lit(last == 'is_none_or', 'bool')
            if last == 'map_or_else' and len(a) == 3:
                if recv[0] != 'ctor':
                    self.split_enum(recv, OPTION if is_opt else RESULT, last)
                if recv[2] == good:
                    return self.apply(a[2], [cfield(recv, '0')], node)
                return self.apply(a[1], [] if is_opt else [cfield(recv, '0')], node)
            if last == 'unwrap_or_default' and recv[0] == 'ctor' and recv[2] == good:
                return cfield(recv, '0')
            if last == 'flatten' and is_opt and recv[0] == 'ctor':
                return NONE if recv[2] == 'None' else cfield(recv, '0')
            if last == 'transpose' and len(a) == 1:
                # Option<Result<T, E>> <-> Result<Option<T>, E>
                if recv[0] != 'ctor':
                    self.split_enum(recv, OPTION if is_opt else RESULT, last)
                if is_opt:
                    if recv[2] == 'None':
                        return ok(NONE)
                    inner = self.refine(cfield(recv, '0'))
                    if inner[0] != 'ctor':
                        self.split_enum(inner, RESULT, 'transpose')
                    return ok(some(cfield(inner, '0'))) if inner[2] == 'Ok' else inner
                if recv[2] == 'Err':
                    return some(recv)
                inner = self.refine(cfield(recv, '0'))
                if inner[0] != 'ctor':
                    self.split_enum(inner, OPTION, 'transpose')
                return some(ok(cfield(inner, '0'))) if inner[2] == 'Some' else NONE
            if last in ('map', 'and_then', 'map_err', 'ok_or', 'ok_or_else', 'ok', 'filter', 'context', 'with_context',
                        'or_else', 'map_or'):
                if recv[0] != 'ctor':
                    if last in ('context', 'with_context', 'map_err'):
                        return recv
                    self.split_enum(recv, OPTION if is_opt else RESULT, last)
                isgood = recv[2] == good
                payload = cfield(recv, '0') if recv[3] else None
                if last == 'map':
                    if not isgood:
                        return recv
                    r = self.apply(a[1], [payload], node)
                    return some(r) if is_opt else ok(r)
                if last == 'and_then':
                    if not isgood:
                        return recv
                    return self.apply(a[1], [payload], node)
                if last in ('map_err', 'context', 'with_context'):
                    return recv
                if last in ('ok_or', 'ok_or_else'):
                    return ok(payload) if isgood else err(('unknown', 'ok_or'))
                if last == 'ok':
                    return some(payload) if isgood else NONE
                if last == 'filter':
                    if not isgood:
                        return recv
                    c = self.apply(a[1], [payload], node)
                    return recv if self.truth(c) else NONE
                if last == 'or_else':
                    if isgood:
                        return recv
                    return self.apply(a[1], [] if is_opt else [payload], node)
                if last == 'map_or':
                    if isgood:
                        return self.apply(a[2], [payload], node)
                    return a[1]
        if p in ('std::convert::Into::into', 'std::convert::From::from', 'std::clone::Clone::clone',
                 'std::borrow::ToOwned::to_owned', 'std::boxed::Box::new', 'std::convert::AsRef::as_ref',
                 'std::ops::Deref::deref', 'std::ops::DerefMut::deref_mut', 'std::borrow::Borrow::borrow',
                 'std::slice::<impl [T]>::to_vec', 'std::slice::<impl [T]>::into_vec', 'std::vec::Vec::into_boxed_slice',
                 'std::vec::Vec::as_slice', 'std::iter::IntoIterator::into_iter', 'std::slice::<impl [T]>::iter',
                 'std::slice::<impl [T]>::iter_mut', 'std::iter::Iterator::cloned', 'std::iter::Iterator::copied',
                 'std::iter::Iterator::by_ref', 'std::mem::take', 'std::convert::identity',
                 'std::string::ToString::to_string', 'std::str::<impl str>::to_string', 'std::iter::Iterator::peekable',
                 'std::boxed::Box::<[T]>::into_vec', 'std::iter::Iterator::fuse',
                 'std::boxed::box_assume_init_into_vec_unsafe', 'std::hint::must_use'):
            if p == 'std::convert::From::from' or p == 'std::convert::Into::into':
                # conversions between different types stay visible
                ty = node.get('ty') if node else None
                v = a[0]
                if v[0] in ('list', 'seq', 'lit'):
                    return v
                return v
            return a[0]
        if p in ('anyhow::Context::context', 'anyhow::Context::with_context'):
            return a[0]
        if p == 'std::intrinsics::write_box_via_move':
            return a[1]
        if p == 'std::boxed::Box::new_uninit':
            return ('call', p, ())
        if p in ('std::default::Default::default',):
            d = self.default_of_type(node.get('ty', '') if node else '')
            if d is not None:
                return d
            return ('call', p + '@' + (node.get('ty', '') if node else ''), ())
        if p in ('std::vec::Vec::new', 'std::vec::Vec::with_capacity'):
            return ('list', ())
        if p in ('std::vec::Vec::len', 'std::slice::<impl [T]>::len', 'std::vec::Vec::is_empty',
                 'std::slice::<impl [T]>::is_empty'):
            if recv[0] == 'list':
                n = len(recv[1])
                return lit(n == 0, 'bool') if last == 'is_empty' else lit(n, 'usize')
            return ('call', p, (recv,))
        if p == 'std::vec::Vec::push':
            return None  # handled in method-call path (needs place)
        if p in ('std::slice::<impl [T]>::first', 'std::slice::<impl [T]>::last', 'std::slice::<impl [T]>::last_mut'):
            if recv[0] == 'list':
                if not recv[1]:
                    return NONE
                return some(recv[1][0] if last == 'first' else recv[1][-1])
            if recv[0] == 'seq':
                return ('call', p, (recv,))
            return ('call', p, (recv,))
        if last in ('iter', 'iter_mut', 'into_iter', 'drain') and p.startswith('std::') and len(a) == 1:
            return a[0]
        if p.startswith('rayon::iter::ParallelIterator::') and last in ('any', 'all', 'find_any', 'find_first', 'position_any') and len(a) == 2:
            # the data-parallel spelling of a predicate over every item: same answer as the serial `any` / `all` (R-PAR decides
            # that the two builds differ only at such sites); keep the predicate visible over the generic item
            return self.iter_builtin({'find_any': 'find', 'find_first': 'find', 'position_any': 'position'}.get(last, last), p, a, node)
        if p.startswith('std::iter::Iterator::') or p.startswith('std::iter::DoubleEndedIterator::'):
            return self.iter_builtin(last, p, a, node)
        if p in ('std::f32::<impl f32>::from_bits', 'std::f64::<impl f64>::from_bits'):
            return ('call', 'from_bits', tuple(a))
        if p == 'std::ops::Fn::call' or p == 'std::ops::FnMut::call_mut' or p == 'std::ops::FnOnce::call_once':
            f = self.refine(a[0])
            if f[0] == 'closure' and a[1][0] == 'tup':
                return self.call_closure(f, list(a[1][1]), node)
        return NOTBUILTIN

    def seq_of(self, v):
        """view a value as an iterable: returns ('list', items) or ('seq', src, elem)"""
        v = self.refine(v)
        if v[0] in ('list', 'seq'):
            return v
        if v[0] == 'ctor' and self.f.adt(v[1]) and self.f.adt(v[1]).get('local'):
            # a named iterator struct of this crate wrapping one inner iterator (`Iter { dead, inner: self.inner.iter() }`):
            # its items are items of the inner iterator (possibly not all of them) - like `inner.filter(..)`
            if any(re.match(r'^<%s(<.*?>)? as std::iter::Iterator>::next$' % re.escape(v[1]), k) for k in self.wrapper_iters()):
                inner = [fv for fn_, fv in v[3] if isinstance(fv, tuple) and fv and (
                    fv[0] == 'seq' or (fv[0] == 'call' and fv[1].split('::')[-1] in ('iter', 'iter_mut', 'into_iter', 'drain', 'values', 'keys')))]
                if len(inner) == 1:
                    return self.seq_of(inner[0])
        return ('seq', v, ('elem', v))

    def wrapper_iters(self):
        if not hasattr(self.f, '_iter_impls'):
            self.f._iter_impls = [k for k in self.f.hir if k.endswith(' as std::iter::Iterator>::next')]
        return self.f._iter_impls

    def apply(self, f, args, node):
        f = self.refine(f)
        if f[0] == 'closure':
            return self.call_closure(f, args, node)
        if f[0] == 'call' and not f[2]:
            # a function item used as a value: ('call', path, ()) marker produced by Path eval
            return self.do_call(f[1], args, node)
        if f[0] == 'fnitem':
            return self.do_call(f[1], args, node)
        if f[0] == 'ctorfn':
            return ctor(f[1], f[2], [(str(i), a) for i, a in enumerate(args)])
        return ('call', 'apply', (f,) + tuple(args))

    def iter_builtin(self, last, p, a, node):
        if last == 'rev':
            s = self.seq_of(a[0])
            if s[0] == 'list':
                return ('list', tuple(reversed(s[1])))
            rsrc = ('call', 'rev', (s[1],))
            if s[2] == ('elem', s[1]):
                return ('seq', rsrc, ('elem', rsrc))
            return ('call', p, tuple(a))
        if last in ('skip_while', 'take_while', 'peekable', 'by_ref', 'chain', 'skip', 'take', 'step_by'):
            return ('call', p, tuple(a))
        s = self.seq_of(a[0])
        if last in ('map', 'filter_map', 'filter', 'flat_map', 'inspect'):
            fn = a[1]
            if s[0] == 'list':
                out = []
                for it in s[1]:
                    if last == 'map':
                        out.append(self.apply(fn, [it], node))
                    elif last == 'filter':
                        if self.truth(self.apply(fn, [it], node)):
                            out.append(it)
                    elif last == 'filter_map':
                        r = self.refine(self.apply(fn, [it], node))
                        if r[0] != 'ctor':
                            self.split_enum(r, OPTION, 'filter_map')
                        if r[2] == 'Some':
                            out.append(cfield(r, '0'))
                    else:
                        return ('call', p, tuple(a))
                return ('list', tuple(out))
            src, elem = s[1], s[2]
            self.loops.append(src)
            try:
                if last == 'map':
                    return ('seq', src, self.apply(fn, [elem], node))
                if last == 'filter':
                    c = self.apply(fn, [elem], node)
                    if not self.truth(c):
                        raise Pruned('filter')
                    return ('seq', src, elem)
                if last == 'filter_map':
                    r = self.refine(self.apply(fn, [elem], node))
                    if r[0] != 'ctor':
                        self.split_enum(r, OPTION, 'filter_map')
                    if r[2] == 'None':
                        raise Pruned('filter_map')
                    return ('seq', src, cfield(r, '0'))
            finally:
                self.loops.pop()
            return ('call', p, tuple(a))
        if last == 'enumerate':
            if s[0] == 'list':
                return ('list', tuple(('tup', (lit(i, 'usize'), x)) for i, x in enumerate(s[1])))
            return ('seq', s[1], ('tup', (('call', 'enumerate_index', (s[1],)), s[2])))
        if last == 'zip':
            t = self.seq_of(a[1])
            if s[0] == 'list' and t[0] == 'list':
                return ('list', tuple(('tup', (x, y)) for x, y in zip(s[1], t[1])))
            return ('call', p, tuple(a))
        if last in ('collect', 'cloned', 'copied'):
            return s
        if last == 'try_for_each' and len(a) == 2:
            # a loop whose body may stop it with an error: one generic iteration; an Err (None) ends the whole call with
            # that value, otherwise the traversal completes with Ok(()) (Some(()))
            fn = a[1]
            items = s[1] if s[0] == 'list' else None
            if items is None:
                self.loops.append(s[1])
            try:
                for it in (items if items is not None else [s[2]]):
                    r = self.refine(self.apply(fn, [it], node))
                    if r[0] != 'ctor':
                        self.split_enum(r, RESULT if 'Result' in (node.get('ty') or 'Result') else OPTION, 'try_for_each')
                    if r[2] in ('Err', 'None'):
                        return r
            finally:
                if items is None:
                    self.loops.pop()
            return ok(UNIT) if 'Option' not in (node.get('ty') or '') else some(UNIT)
        if last in ('for_each',):
            fn = a[1]
            if s[0] == 'list':
                for it in s[1]:
                    self.apply(fn, [it], node)
                return UNIT
            self.loops.append(s[1])
            try:
                self.apply(fn, [s[2]], node)
            finally:
                self.loops.pop()
            return UNIT
        if last in ('count', 'len'):
            if s[0] == 'list':
                return lit(len(s[1]), 'usize')
        if last in ('all', 'any', 'position', 'find', 'find_map', 'rposition', 'max_by_key', 'min_by_key'):
            if s[0] == 'list' and last in ('all', 'any'):
                res = (last == 'all')
                for it in s[1]:
                    c = self.truth(self.apply(a[1], [it], node))
                    if last == 'all' and not c:
                        return lit(False, 'bool')
                    if last == 'any' and c:
                        return lit(True, 'bool')
                return lit(res, 'bool')
            if s[0] == 'seq' and len(a) > 1 and (self.refine(a[1])[0] == 'closure' or (
                    self.refine(a[1])[0] == 'fnitem' and self.refine(a[1])[1] in self.f.hir
                    and self.policy.should_inline(self.refine(a[1])[1], self.depth)
                    and not self.policy.is_effect(norm_path(self.refine(a[1])[1])))):
                # (a named local function used as the predicate is looked through like a closure)
                if last == 'find_map':
                    # a closure that *does* something per element is a search loop in disguise: one generic iteration, in
                    # the loop's context; finding something ends the loop early
                    n0 = len(self.trace)
                    self.loops.append(s[1])
                    try:
                        pred = self.apply(a[1], [s[2]], node)
                        pr = self.refine(pred)
                        if len(self.trace) > n0 and pr[0] == 'ctor' and pr[2] == 'Some':
                            self.effect('loop_exit', 'find_map', (), node)
                    finally:
                        self.loops.pop()
                    if len(self.trace) > n0 and pr[0] == 'ctor' and pr[2] in ('Some', 'None'):
                        return pr
                    return ('call', 'iter::' + last, (s, pred))
                # keep the predicate visible as a term over the generic element
                try:
                    pred = self.apply(a[1], [s[2]], node)
                except NeedSplit:
                    raise
                return ('call', 'iter::' + last, (s, pred))
            return ('call', p, tuple(a))
        if last == 'next':
            if s[0] == 'list':
                return some(s[1][0]) if s[1] else NONE
            # an opaque iterator yields something new each time it is advanced
            r = ('call', p, tuple(a))
            n = self.mutcalls.get(r, 0) + 1
            self.mutcalls[r] = n
            if n > 1:
                r = ('call', p, tuple(a) + (('lit', n, '#nth'),))
            return r
        return ('call', p, tuple(a))

    # -------------------------------------------------------------- patterns
    def match(self, pat, v, env, irrefutable=False, ty=None):
        """returns True/False; may raise NeedSplit. Binds into env."""
        k = pat['k']
        if k == 'Wild':
            return True
        if k == 'Bind':
            if 'sub' in pat:
                if not self.match(pat['sub'], v, env, irrefutable, ty):
                    return False
            env[pat['id']] = v
            return True
        if k in ('Ref', 'Deref'):
            return self.match(pat['p'], v, env, irrefutable, ty)
        if k == 'Or':
            for sub in pat['pats']:
                if self.match(sub, v, env, irrefutable, ty):
                    return True
            return False
        v = self.refine(v)
        pty = pat.get('ty') or ty
        if k == 'Tuple':
            pats = pat['pats']
            if v[0] == 'tup':
                items = list(v[1])
            else:
                n = len(ty_tuple_elems(pty)) if pty else len(pats)
                items = [('field', v, str(i)) for i in range(n)]
            dd = pat.get('ddpos')
            if dd is None:
                if len(items) != len(pats):
                    raise EvalError('tuple arity')
                pairs = list(zip(pats, items))
            else:
                tail = len(pats) - dd
                pairs = list(zip(pats[:dd], items[:dd])) + (list(zip(pats[dd:], items[len(items) - tail:])) if tail else [])
            okk = True
            for sp, it in pairs:
                if not self.match(sp, it, env, irrefutable):
                    okk = False
                    if not irrefutable:
                        return False
            return okk
        if k == 'Lit':
            if v[0] == 'lit':
                return v[1] == pat.get('v')
            if isinstance(pat.get('v'), bool):
                # `match b { true => .., false => .. }` is the condition `b` itself
                return self.truth(v) == pat.get('v')
            key = ('atom', ('bin', 'Eq', v, lit(pat.get('v'), pty or '')))
            if key in self.asm:
                return self.asm[key]
            raise NeedSplit(key, [True, False], 'literal pattern')
        if k == 'Slice':
            if v[0] != 'list':
                # opaque slice: case split on its length class 0 / 1 / 2 (2 stands for "two or more")
                i0, i1 = ('call', 'index', (v, lit(0, 'usize'))), ('call', 'index', (v, lit(1, 'usize')))
                raise NeedSplit(v, [('list', ()), ('list', (i0,)), ('list', (i0, i1))], 'slice pattern')
            items = v[1]
            before, after = pat['before'], pat['after']
            if 'mid' in pat:
                if len(items) < len(before) + len(after):
                    return False
            elif len(items) != len(before) + len(after):
                return False
            for sp, it in zip(before, items):
                if not self.match(sp, it, env, irrefutable):
                    return False
            if after:
                for sp, it in zip(after, items[len(items) - len(after):]):
                    if not self.match(sp, it, env, irrefutable):
                        return False
            if 'mid' in pat:
                mid = items[len(before):len(items) - len(after)]
                if not self.match(pat['mid'], ('list', tuple(mid)), env, irrefutable):
                    return False
            return True
        if k in ('Struct', 'TupleStruct', 'Path'):
            adt, variant = pat.get('adt'), pat.get('variant')
            if adt is None:
                # constant pattern
                cv = ('call', pat.get('def', '?'), ())
                if v == cv:
                    return True
                key = ('atom', ('bin', 'Eq', v, cv))
                if key in self.asm:
                    return self.asm[key]
                raise NeedSplit(key, [True, False], 'const pattern')
            a = self.f.adt(adt)
            is_enum = (a['kind'] == 'enum') if a else adt in (OPTION, RESULT, 'core::option::Option', 'core::result::Result')
            if a is None and not is_enum and variant and variant != adt.split('::')[-1] and v[0] != 'ctor':
                # a variant of an enum defined outside the crate (its definition is not in the facts): the value is this
                # variant or some other one
                this = ctor(adt, variant, [(str(i), ('field', v, variant + '.' + str(i))) for i in range(len(pat.get('pats', [])))]
                            + [(fp['name'], ('field', v, variant + '.' + fp['name'])) for fp in pat.get('fields', [])])
                raise NeedSplit(v, [this, ctor(adt, '#other-than-' + variant, [('#of', v)])], 'pattern ' + variant)
            if a is None and not is_enum and v[0] == 'ctor' and v[1] == adt and variant and variant != adt.split('::')[-1]:
                if v[2].startswith('#other-than-'):
                    if v[2] == '#other-than-' + variant:
                        return False
                    # "some other variant" meets a pattern for a variant it can be: taken to be that one (exact for the
                    # two-variant enums this is for - Entry, Cow, Ordering-like results, ControlFlow)
                    orig = cfield(v, '#of')
                    npats = len(pat.get('pats', []))
                    v = ctor(adt, variant, [(str(i), ('field', orig, variant + '.' + str(i))) for i in range(npats)]
                             + [(fp['name'], ('field', orig, variant + '.' + fp['name'])) for fp in pat.get('fields', [])])
                elif v[2] != variant:
                    return False
            if v[0] != 'ctor':
                if is_enum:
                    self.split_enum(v, adt, 'pattern ' + variant)
                # struct pattern on opaque struct value: project fields
                vv = v
                get = lambda name: ('field', vv, name)
            else:
                if is_enum and v[2] != variant:
                    return False
                vv = v
                def get(name, vv=vv):
                    r = cfield(vv, name)
                    if r is None:
                        return ('field', vv, name)
                    return r
            if k == 'Struct':
                for fp in pat['fields']:
                    if not self.match(fp['p'], get(fp['name']), env, irrefutable):
                        return False
                return True
            if k == 'TupleStruct':
                pats = pat['pats']
                dd = pat.get('ddpos')
                if dd is None:
                    idxs = list(range(len(pats)))
                else:
                    var = self.f.variant(adt, variant)
                    n = len(var['fields']) if var else len(pats)
                    tail = len(pats) - dd
                    idxs = list(range(dd)) + list(range(n - tail, n))
                for sp, i in zip(pats, idxs):
                    if not self.match(sp, get(str(i)), env, irrefutable):
                        return False
                return True
            return True
        if k == 'Range':
            raise EvalError('range pattern')
        raise EvalError('pattern kind ' + k)

    # -------------------------------------------------------------- expressions
    def block(self, b, env):
        for s in b['stmts']:
            k = s['k']
            if k == 'Let':
                init = s.get('init')
                v = self.expr(init, env) if init is not None else ('unknown', 'uninit')
                if s.get('els') is not None:
                    env2 = dict()
                    if self.match(s['pat'], v, env2):
                        env.update(env2)
                    else:
                        self.block(s['els'], env)
                        raise EvalError('let-else fallthrough')
                else:
                    if not self.match(s['pat'], v, env, irrefutable=True):
                        raise EvalError('irrefutable let failed at line %s' % s.get('l'))
            elif k == 'Semi':
                self.expr(s['e'], env)
            else:
                self.expr(s, env)
        if b.get('expr') is not None:
            return self.expr(b['expr'], env)
        return UNIT

    def place_assign(self, target, v, env):
        k = target['k']
        if k == 'Path' and target.get('res') == 'local':
            env[target['id']] = v
            return
        if k == 'Unary' and target['op'] == 'Deref':
            inner = target['a']
            if inner.get('k') == 'Path' and inner.get('res') == 'local' and (inner.get('ty') or '').startswith('&'):
                cur = env.get(inner['id'])
                if cur is not None and cur[0] not in ('lit', 'ctor', 'list', 'tup'):
                    # write through a reference to something we do not own: an observable store
                    self.effect('store', '*' + (inner.get('name') or '?'), (cur, v), target)
                    return
            return self.place_assign(target['a'], v, env)
        if k == 'Field':
            base = self.expr(target['e'], env)
            base = self.refine(base)
            if base[0] == 'ctor':
                fields = [(n, (v if n == target['name'] else t)) for n, t in base[3]]
                if target['name'] not in [n for n, _ in base[3]]:
                    fields.append((target['name'], v))
                self.place_assign(target['e'], ('ctor', base[1], base[2], tuple(fields)), env)
                return
            self.effect('store', show_place(target), (base, v), target)
            return
        if k == 'Index':
            base = self.expr(target['a'], env)
            idx = self.expr(target['b'], env)
            self.effect('store', 'index', (base, idx, v), target)
            return
        self.effect('store', 'other', (v,), target)

    def expr(self, e, env):
        k = e['k']
        mac = e.get('mac')
        if mac and ('$crate::log<' in mac or 'debug_assert' in mac or mac.startswith('log::')):
            return UNIT
        m = getattr(self, 'e_' + k, None)
        if m is None:
            raise EvalError('expr kind ' + k)
        return m(e, env)

    def e_Block(self, e, env):
        try:
            return self.block(e, env)
        except BreakEx as b:
            if b.target == e.get('id'):
                return b.v
            raise

    def e_Lit(self, e, env):
        ty = e.get('ty', '')
        v = e.get('v')
        if e.get('lk') == 'int' and is_int_ty(ty):
            v = wrap_int(v, ty)
        return lit(v, ty)

    def e_Path(self, e, env):
        res = e.get('res')
        if res == 'local':
            if e['id'] not in env:
                raise EvalError('unbound local %s (line %s)' % (e.get('name'), e.get('l')))
            return env[e['id']]
        if res and res.startswith('Ctor'):
            adt, variant = e['adt'], e['variant']
            if 'Const' in res:
                return ctor(adt, variant, ())
            return ('ctorfn', adt, variant)
        if res in ('Fn', 'AssocFn'):
            return ('fnitem', e['def'])
        if res in ('Const', 'AssocConst', 'Static', 'ConstParam') or (res or '').startswith('Const') \
                or (res or '').startswith('AssocConst') or (res or '').startswith('Static'):
            c = getattr(self.f, 'consts', {}).get(norm_path(e.get('def', '?')))
            if c is not None and self.depth < 20:
                # a local constant: its initialiser is its value
                self.depth += 1
                try:
                    v = self.expr(c['body'], {})
                    if v[0] in ('lit', 'ctor', 'list', 'tup', 'call', 'bin'):
                        return v
                except (EvalError, KeyError):
                    pass
                finally:
                    self.depth -= 1
            return ('call', e.get('def', '?'), ())
        if res == 'SelfTy':
            if 'variant' in e:
                return ('ctorfn', e['adt'], e['variant'])
        return ('unknown', 'path:' + str(res) + ':' + str(e.get('def')))

    def e_Tup(self, e, env):
        return ('tup', tuple(self.expr(x, env) for x in e['elems']))

    def e_Array(self, e, env):
        return ('list', tuple(self.expr(x, env) for x in e['elems']))

    def e_Repeat(self, e, env):
        return ('call', 'repeat', (self.expr(e['e'], env),))

    def e_AddrOf(self, e, env):
        return self.expr(e['e'], env)

    def e_Unary(self, e, env):
        v = self.expr(e['a'], env)
        op = e['op']
        if op == 'Deref':
            return v
        v = self.refine(v)
        if op == 'Not':
            if v[0] == 'lit':
                if isinstance(v[1], bool):
                    return lit(not v[1], 'bool')
                return lit(wrap_int(~v[1], v[2]), v[2])
            if v[0] == 'un' and v[1] == 'Not':
                return v[2]
            ty = e.get('ty', '')
            if ty == 'bool':
                # keep atoms canonical: decide on the positive atom
                return lit(not self.truth(v), 'bool')
            return ('un', 'Not', v)
        if op == 'Neg':
            if v[0] == 'lit':
                return lit(wrap_int(-v[1], v[2]), v[2])
            return ('un', 'Neg', v)
        return ('un', op, v)

    def e_Binary(self, e, env):
        op = e['op']
        if op in ('And', 'Or'):
            a = self.truth(self.expr(e['a'], env))
            if op == 'And':
                if not a:
                    return lit(False, 'bool')
                return lit(self.truth(self.expr(e['b'], env)), 'bool')
            if a:
                return lit(True, 'bool')
            return lit(self.truth(self.expr(e['b'], env)), 'bool')
        a = self.refine(self.expr(e['a'], env))
        b = self.refine(self.expr(e['b'], env))
        return self.binop(op, a, b, e.get('ty', ''))

    def binop(self, op, a, b, ty):
        if op in ('Eq', 'Ne') and a[0] == 'ctor' and b[0] == 'ctor' and a[1] == b[1] and a[1] in (OPTION, RESULT, 'core::option::Option'):
            # Some(x) == Some(y)  <=>  x == y ;  Some(_) == None is false (derived PartialEq of Option / Result)
            if a[2] != b[2]:
                return lit(op == 'Ne', 'bool')
            if not a[3] and not b[3]:
                return lit(op == 'Eq', 'bool')
            if len(a[3]) == 1 and len(b[3]) == 1:
                return self.binop(op, a[3][0][1], b[3][0][1], ty)
        if a[0] == 'lit' and b[0] == 'lit' and not isinstance(a[1], str):
            x, y = a[1], b[1]
            try:
                if op == 'Add':
                    r = x + y
                elif op == 'Sub':
                    r = x - y
                elif op == 'Mul':
                    r = x * y
                elif op == 'Div':
                    r = x // y
                elif op == 'Rem':
                    r = x % y
                elif op == 'Shl':
                    r = x << y
                elif op == 'Shr':
                    r = x >> y
                elif op == 'BitAnd':
                    r = x & y
                elif op == 'BitOr':
                    r = x | y
                elif op == 'BitXor':
                    r = x ^ y
                elif op in ('Eq', 'Ne', 'Lt', 'Le', 'Gt', 'Ge'):
                    r = {'Eq': x == y, 'Ne': x != y, 'Lt': x < y, 'Le': x <= y, 'Gt': x > y, 'Ge': x >= y}[op]
                    return lit(r, 'bool')
                else:
                    return ('bin', op, a, b)
                if isinstance(r, bool):
                    return lit(r, 'bool')
                return lit(wrap_int(r, ty or a[2]), ty or a[2])
            except Exception:
                return ('bin', op, a, b)
        if op in ('Eq', 'Ne'):
            if a == b:
                return lit(op == 'Eq', 'bool')
            if a[0] == 'ctor' and b[0] == 'ctor':
                if a[2] != b[2] or a[1] != b[1]:
                    return lit(op == 'Ne', 'bool')
            if op == 'Ne':
                return ('un', 'Not', ('bin', 'Eq', a, b))
        return ('bin', op, a, b)

    def e_Cast(self, e, env):
        v = self.refine(self.expr(e['e'], env))
        to = e.get('ty', '')
        frm = e.get('from', '')
        if v[0] == 'lit' and is_int_ty(to) and not isinstance(v[1], (str,)):
            if isinstance(v[1], bool):
                return lit(int(v[1]), to)
            return lit(wrap_int(v[1], to), to)
        if frm == to:
            return v
        return ('cast', v, frm, to)

    def e_Field(self, e, env):
        base = self.refine(self.expr(e['e'], env))
        name = e['name']
        if base[0] == 'ctor':
            r = cfield(base, name)
            if r is not None:
                return r
        if base[0] == 'tup' and name.isdigit():
            return base[1][int(name)]
        # a struct that was lent `&mut` to opaque callees (after(...)) keeps its shared-reference fields: nothing in
        # walrus re-seats `EmitContext.module` & co; reading such a field goes through to the constructed value
        inner = base
        while inner[0] == 'call' and inner[1] == 'after' and len(inner[2]) >= 1:
            inner = inner[2][0]
        if inner is not base and inner[0] == 'ctor':
            var = self.f.variant(inner[1], inner[2])
            fty = None
            for fd in (var or {}).get('fields', []):
                if fd['name'] == name:
                    fty = fd['ty']
            if fty and fty.startswith('&') and not fty.startswith('&mut') and not re.match(r"^&'\w+ mut ", fty):
                r = cfield(inner, name)
                if r is not None:
                    return r
        return self.refine(('field', base, name))

    def e_Index(self, e, env):
        a = self.refine(self.expr(e['a'], env))
        b = self.refine(self.expr(e['b'], env))
        if b[0] == 'ctor' and b[2] == 'RangeFull':
            return a
        if a[0] == 'list' and b[0] == 'lit':
            if b[1] >= len(a[1]):
                raise PanicEx('index out of bounds', e.get('l'))
            return a[1][b[1]]
        return ('call', 'index', (a, b))

    def e_Struct(self, e, env):
        fields = []
        for f in e['fields']:
            fields.append((f['name'], self.expr(f['e'], env)))
        base = e.get('base')
        if base is not None and base != 'default':
            bv = self.refine(self.expr(base, env))
            have = {n for n, _ in fields}
            var = self.f.variant(e.get('adt'), e.get('variant'))
            if var:
                for fd in var['fields']:
                    if fd['name'] not in have:
                        if bv[0] == 'ctor' and cfield(bv, fd['name']) is not None:
                            fields.append((fd['name'], cfield(bv, fd['name'])))
                        else:
                            fields.append((fd['name'], ('field', bv, fd['name'])))
        return ctor(e.get('adt', '?'), e.get('variant', '?'), fields)

    def e_Closure(self, e, env):
        key = (e.get('def'), len(self.closures))
        self.closures[key] = (e, env, self.frames[-1] if self.frames else None)
        return ('closure', key)

    def e_If(self, e, env):
        c = e['c']
        if c['k'] == 'LetExpr':
            v = self.expr(c['init'], env)
            env2 = {}
            if self.match(c['pat'], v, env2, ty=c['init'].get('ty')):
                env.update(env2)
                return self.expr(e['t'], env)
            if 'e' in e:
                return self.expr(e['e'], env)
            return UNIT
        cv = self.cond(c, env)
        if cv:
            return self.expr(e['t'], env)
        if 'e' in e:
            return self.expr(e['e'], env)
        return UNIT

    def cond(self, c, env):
        """evaluate a condition which may contain let-chains"""
        if c['k'] == 'Binary' and c['op'] == 'And':
            return self.cond(c['a'], env) and self.cond(c['b'], env)
        if c['k'] == 'LetExpr':
            v = self.expr(c['init'], env)
            env2 = {}
            if self.match(c['pat'], v, env2, ty=c['init'].get('ty')):
                env.update(env2)
                return True
            return False
        return self.truth(self.expr(c, env))

    def e_LetExpr(self, e, env):
        v = self.expr(e['init'], env)
        env2 = {}
        if self.match(e['pat'], v, env2, ty=e['init'].get('ty')):
            env.update(env2)
            return lit(True, 'bool')
        return lit(False, 'bool')

    def e_Match(self, e, env):
        src = e.get('src', 'Normal')
        if src.startswith('TryDesugar'):
            return self.try_op(e, env)
        if src == 'ForLoopDesugar':
            return self.for_loop(e, env)
        scrut = self.expr(e['scrut'], env)
        sty = e['scrut'].get('ty')
        for arm in e['arms']:
            env2 = {}
            if self.match(arm['pat'], scrut, env2, ty=sty):
                if arm.get('guard') is not None:
                    env3 = dict(env)
                    env3.update(env2)
                    if not self.cond(arm['guard'], env3):
                        continue
                    env.update(env3)
                else:
                    env.update(env2)
                return self.expr(arm['body'], env)
        raise EvalError('no arm matched %s at line %s' % (show(scrut), e.get('l')))

    def try_op(self, e, env):
        # match Try::branch(x) { Continue(v) => v, Break(r) => return from_residual(r) }
        call = e['scrut']
        x = call['args'][0] if call['k'] == 'Call' else call
        v = self.refine(self.expr(x, env))
        if v[0] == 'ctor' and v[2] in ('Ok', 'Some'):
            return cfield(v, '0')
        if v[0] == 'ctor' and v[2] in ('Err', 'None'):
            self.effect('try_fail', '?', (v,), e)
            raise ReturnEx(v)
        if self.policy.split_try:
            head = self.adt_of_ty(x.get('ty'))
            if head in (OPTION, 'core::option::Option') and v[0] not in ('ok',):
                self.split_enum(v, OPTION, 'try')
            elif self.policy.split_try == 'all' and head in (RESULT, 'core::result::Result') and v[0] not in ('ok',):
                self.split_enum(v, RESULT, 'try')
        self.effect('try', '?', (v,), e)
        return ('ok', v)

    def for_loop(self, e, env):
        # match into_iter(x) { mut iter => loop { match next(&mut iter) { None => break, Some(pat) => body } } }
        it = self.expr(e['scrut'], env)
        arm = e['arms'][0]
        loop = arm['body']
        inner = None
        # find the inner match on Iterator::next
        def find(n):
            nonlocal inner
            if isinstance(n, dict):
                if n.get('k') == 'Match' and n.get('src') == 'ForLoopDesugar' and n is not e:
                    inner = n
                    return True
                for vv in n.values():
                    if find(vv):
                        return True
            elif isinstance(n, list):
                for vv in n:
                    if find(vv):
                        return True
            return False
        find(loop)
        if inner is None:
            raise EvalError('for loop shape')
        some_arm = [a for a in inner['arms'] if a['pat'].get('variant') == 'Some'][0]
        pat = some_arm['pat']['pats'][0] if some_arm['pat']['k'] == 'TupleStruct' else some_arm['pat']['fields'][0]['p']
        body = some_arm['body']
        loop_id = loop.get('id')
        return self.iterate(it, pat, body, loop_id, env, e)

    def default_of_type(self, ty, depth=0):
        """`Default::default()` of a primitive, an Option / Vec / String, or a struct of this crate made of those (what
        `#[derive(Default)]` produces); None when the type is not one of these"""
        ty = (ty or '').strip()
        if ty in ('u8', 'u16', 'u32', 'u64', 'u128', 'usize', 'i8', 'i16', 'i32', 'i64', 'i128', 'isize'):
            return lit(0, ty)
        if ty == 'bool':
            return lit(False, 'bool')
        if ty.startswith('std::option::Option<') or ty.startswith('core::option::Option<'):
            return NONE
        if ty.startswith('std::vec::Vec<'):
            return ('list', ())
        a = self.f.adt(re.sub(r'<.*$', '', ty)) if ty else None
        if a and a.get('local') and a.get('kind') == 'struct' and depth < 3:
            # only when the impl is the derived one (field-wise defaults): a hand-written impl has a body of its own,
            # which the caller inlines instead
            hp = '<%s as std::default::Default>::default' % a['path']
            if hp in self.f.hir and not derived_default_shape(self.f.hir[hp]):
                return None          # a hand-written impl: left as the opaque `default()` it always was
            fields = []
            for fd in a['variants'][0]['fields']:
                d = self.default_of_type(fd['ty'], depth + 1)
                if d is None:
                    return None
                fields.append((fd['name'], d))
            return ctor(a['path'], a['variants'][0]['name'], fields)
        return None

    def fields_assigned_by_callees(self, body, env):
        """{(local id, field): 'local.field'} for fields of a local struct value that the loop body changes through a method
        it calls on that local (`state.bump()` with `fn bump(&mut self) { self.next += 1 }`): the loop carries those fields
        exactly like fields it assigns itself"""
        out = {}

        def walk(n):
            if isinstance(n, dict):
                if n.get('k') == 'Closure':
                    return
                if n.get('k') == 'MethodCall' and (n.get('recv_ty') or '').startswith('&mut'):
                    r = n['recv']
                    while r.get('k') == 'AddrOf' or (r.get('k') == 'Unary' and r.get('op') == 'Deref'):
                        r = r['e'] if r['k'] == 'AddrOf' else r['a']
                    callee = n.get('callee')
                    h = self.f.hir.get(callee) if callee else None
                    if h is None and callee:
                        h = self.f.hir.get(getattr(self.f, '_norm_hir', {}).get(norm_path(callee), ''))
                    if r.get('k') == 'Path' and r.get('res') == 'local' and r.get('id') in env and h is not None \
                            and self.refine(env[r['id']])[0] == 'ctor' and h.get('params') and h['params'][0].get('k') == 'Bind':
                        sid = h['params'][0]['id']
                        for (vid, fname), _ in assigned_fields_through_ref(h['body'], sid).items():
                            out[(r['id'], fname)] = '%s.%s' % (r.get('name'), fname)
                for v in n.values():
                    walk(v)
            elif isinstance(n, list):
                for v in n:
                    walk(v)
        walk(body)
        return out

    def explicit_iterator_loop(self, e, env):
        """(local id, iterator term, item pattern, body) when loop `e` is `while let Some(p) = it.next() { body }` or
        `loop { match it.next() { Some(p) => body, None => break } }` over a local `it` that holds an iterator whose
        source we know (`xs.iter()`, `v.drain(..)`, `into_iter()`, adaptors over those); else None"""
        body = e['body']
        ifn = body.get('expr') if not body['stmts'] else None
        letelse = None
        if ifn is None and body['stmts'] and body['stmts'][0].get('k') == 'Let' and body['stmts'][0].get('els') is not None \
                and e.get('src') != 'While':
            letelse = body['stmts'][0]          # loop { let Some(p) = it.next() else { break }; rest }
        elif ifn is None and not (body.get('stmts') and body['stmts'][0].get('k') == 'Let'):
            return None

        fallible = [False]

        def next_call(n):
            while n.get('k') in ('AddrOf',) or (n.get('k') == 'Unary' and n.get('op') == 'Deref'):
                n = n['e'] if n['k'] == 'AddrOf' else n['a']
            if n.get('k') == 'Match' and (n.get('src') or '').startswith('TryDesugar'):
                # `it.next().transpose()?`: items are Results, the loop sees the Ok payloads (an Err leaves the function)
                c = n['scrut']
                arg = c['args'][0] if c.get('k') == 'Call' and c.get('args') else c
                if arg.get('k') == 'MethodCall' and norm_path(arg.get('callee') or '').split('::')[-1] == 'transpose':
                    fallible[0] = True
                    n = arg['recv']
                else:
                    return None
            if n.get('k') != 'MethodCall' or norm_path(n.get('callee') or '').split('::')[-1] != 'next' or n.get('args'):
                return None
            r = n['recv']
            while r.get('k') in ('AddrOf',) or (r.get('k') == 'Unary' and r.get('op') == 'Deref'):
                r = r['e'] if r['k'] == 'AddrOf' else r['a']
            if r.get('k') == 'Path' and r.get('res') == 'local' and r.get('id') in env:
                return r['id']
            return None

        def some_pat(p):
            if p.get('k') == 'TupleStruct' and p.get('variant') == 'Some' and len(p.get('pats', [])) == 1:
                return p['pats'][0]
            return None
        lid = pat = lbody = None
        st0 = body['stmts'][0] if body.get('stmts') else None
        if e.get('src') != 'While' and st0 is not None and st0.get('k') == 'Let' and st0.get('els') is None \
                and (st0.get('init') or {}).get('k') == 'Match' and (st0['init'].get('src') or 'Normal') == 'Normal' \
                and len(st0['init'].get('arms', [])) == 2:
            # loop { let x = match it.next() { Some(v) => v, None => break }; rest }
            m = st0['init']
            sa = [a for a in m['arms'] if some_pat(a['pat']) is not None and a.get('guard') is None]
            na = [a for a in m['arms'] if a not in sa]
            if len(sa) == 1 and len(na) == 1:
                sb, nb = sa[0]['body'], na[0]['body']
                while nb.get('k') == 'Block' and not nb.get('stmts') and nb.get('expr'):
                    nb = nb['expr']
                while sb.get('k') == 'Block' and not sb.get('stmts') and sb.get('expr'):
                    sb = sb['expr']
                sp = some_pat(sa[0]['pat'])
                if nb.get('k') == 'Break' and nb.get('e') is None and sb.get('k') == 'Path' and sb.get('res') == 'local' \
                        and sp.get('k') == 'Bind' and sp.get('id') == sb.get('id'):
                    lid = next_call(m['scrut'])
                    pat = st0['pat']
                    lbody = {'k': 'Block', 'l': body.get('l'), 'stmts': body['stmts'][1:], 'expr': body.get('expr')}
        if lid is not None and pat is not None:
            pass
        elif letelse is not None:
            els = letelse['els']
            only_break = not els.get('stmts') and (els.get('expr') or {}).get('k') == 'Break' and (els.get('expr') or {}).get('e') is None
            if not only_break and len(els.get('stmts', [])) == 1 and not els.get('expr'):
                st = els['stmts'][0]
                st = st.get('e', st)
                only_break = st.get('k') == 'Break' and st.get('e') is None
            if only_break and letelse.get('init') is not None:
                lid = next_call(letelse['init'])
                pat = some_pat(letelse['pat'])
                lbody = {'k': 'Block', 'l': body.get('l'), 'stmts': body['stmts'][1:], 'expr': body.get('expr')}
        elif e.get('src') == 'While' and ifn['k'] == 'If' and ifn['c'].get('k') == 'LetExpr':
            lid = next_call(ifn['c']['init'])
            pat = some_pat(ifn['c']['pat'])
            lbody = ifn['t']
        elif ifn['k'] == 'Match' and ifn.get('src', 'Normal') == 'Normal' and len(ifn.get('arms', [])) == 2:
            lid = next_call(ifn['scrut'])
            arms = ifn['arms']
            sa = [a for a in arms if some_pat(a['pat']) is not None and a.get('guard') is None]
            na = [a for a in arms if a not in sa]
            if len(sa) == 1 and len(na) == 1:
                nb = na[0]['body']
                while nb.get('k') == 'Block' and not nb.get('stmts') and nb.get('expr'):
                    nb = nb['expr']
                if nb.get('k') == 'Break' and nb.get('e') is None:
                    pat, lbody = some_pat(sa[0]['pat']), sa[0]['body']
        if lid is None or pat is None or lbody is None:
            return None
        it = self.refine(env[lid])
        try:
            sq = self.seq_of(it)
        except EvalError:
            return None
        if sq[0] not in ('seq', 'list'):
            return None
        # the body must not use the iterator itself (peeking, nested next()): then it is not a plain traversal
        uses = [0]

        def walk(n):
            if isinstance(n, dict):
                if n.get('k') == 'Path' and n.get('res') == 'local' and n.get('id') == lid:
                    uses[0] += 1
                for v in n.values():
                    walk(v)
            elif isinstance(n, list):
                for v in n:
                    walk(v)
        walk(lbody)
        if uses[0]:
            return None
        return lid, it, pat, lbody, (lambda x: ('ok', x)) if fallible[0] else None

    def iterate(self, it, pat, body, loop_id, env, e, wrap=None):
        """run `body` once per item of the iterator term `it` with `pat` bound to the item: concretely for a known list,
        otherwise as one generic iteration (shared by `for` loops and by explicit `while let Some(x) = it.next()` /
        `loop { match it.next() { .. } }` loops over a local iterator)"""
        s = self.seq_of(it)
        if wrap is not None:
            s = ('list', tuple(wrap(x) for x in s[1])) if s[0] == 'list' else ('seq', s[1], wrap(s[2]))
        if s[0] == 'list':
            for item in s[1]:
                env2 = env
                if not self.match(pat, item, env2, irrefutable=True):
                    raise EvalError('for pattern')
                try:
                    self.expr(body, env2)
                except ContinueEx as c:
                    if c.target not in (loop_id, None):
                        raise
                    continue
                except BreakEx as b:
                    if b.target in (loop_id, None):
                        break
                    raise
            return UNIT
        # symbolic: one generic iteration
        src, elem = s[1], s[2]
        self.loops.append(src)
        self.effect('loop_begin', 'for', (src,), e)
        lvars = {}
        for vid, vname in assigned_locals(body).items():
            if vid in env:
                lv = ('call', 'loopvar', (src, env[vid], ('lit', vname, '')))
                lvars[vid] = lv
                env[vid] = lv
        flvars = {}
        for (vid, fname), disp in list(assigned_fields(body).items()) + list(self.fields_assigned_by_callees(body, env).items()):
            cur = env.get(vid)
            if cur is not None and cur[0] == 'ctor' and cfield(cur, fname) is not None and vid not in lvars:
                lv = ('call', 'loopvar', (src, cfield(cur, fname), ('lit', disp, '')))
                flvars[(vid, fname)] = lv
                env[vid] = with_field(env[vid], fname, lv)
        snapshot = dict(env)
        try:
            if not self.match(pat, elem, env, irrefutable=True):
                raise EvalError('for pattern')
            try:
                self.expr(body, env)
            except ContinueEx as c:
                if c.target not in (loop_id, None):
                    self.effect('loop_exit', 'continue-outer', (src,), e)
                    raise
            except BreakEx as b:
                self.effect('loop_exit', 'break', (src,), e)
                if b.target not in (loop_id, None):
                    raise
            except ReturnEx:
                self.effect('loop_exit', 'return', (src,), e)
                raise
        finally:
            self.loops.pop()
            self.effect('loop_end', 'for', (src,), e)
        exited = any(x['kind'] == 'loop_exit' and x['args'] == (src,) and x['callee'] in ('break', 'continue-outer')
                     for x in self.trace[-40:])
        for vid, lv in lvars.items():
            upd = env.get(vid)
            self.effect('loop_update', lv[2][2][1], (lv, upd), e)
            if upd == lv:
                # no iteration of this shape touches it: it still has the value it had before the loop
                env[vid] = lv[2][1]
            elif exited and upd[0] == 'lit':
                # set by the iteration that left the loop: that was the last one
                env[vid] = upd
            else:
                env[vid] = ('call', 'loop_result', (lv, upd))
            snapshot[vid] = env[vid]
        for (vid, fname), lv in flvars.items():
            cur = env.get(vid)
            if cur is not None and cur[0] == 'ctor':
                upd = cfield(cur, fname)
                self.effect('loop_update', lv[2][2][1], (lv, upd), e)
                env[vid] = with_field(cur, fname, ('call', 'loop_result', (lv, upd)))
                snapshot[vid] = env[vid]
        # loop-carried locals become functions of the loop
        for kk, vv in list(env.items()):
            if kk in snapshot and snapshot[kk] != vv:
                old = snapshot[kk]
                if old[0] == 'list' and vv[0] == 'list' and vv[1][:len(old[1])] == old[1] and len(vv[1]) == len(old[1]) + 1 \
                        and not old[1]:
                    env[kk] = ('seq', src, vv[1][-1])
                else:
                    env[kk] = ('call', 'loop_carried', (src, vv))
        return UNIT

    def e_Loop(self, e, env):
        # concrete execution while conditions stay literal (bounded); a `while` whose condition is
        # opaque is summarised by ONE generic iteration of its body under a loop marker
        loop_id = e.get('id')
        body = e['body']
        ifn = body.get('expr') if not body['stmts'] else None
        is_while = e.get('src') == 'While' and ifn is not None and ifn['k'] == 'If'
        if e.get('src') != 'While' and body['stmts'] and '_as_while' not in e:
            # `loop { if c { break } rest }` is `while !c { rest }`
            st0 = body['stmts'][0]
            st0 = st0.get('e', st0) if st0.get('k') == 'Semi' else st0
            if st0.get('k') == 'If' and st0.get('e') is None:
                tb = st0['t']
                while tb.get('k') == 'Block' and not tb.get('stmts') and tb.get('expr'):
                    tb = tb['expr']
                if tb.get('k') == 'Block' and len(tb.get('stmts', [])) == 1 and not tb.get('expr'):
                    one = tb['stmts'][0]
                    tb = one.get('e', one) if one.get('k') == 'Semi' else one
                if tb.get('k') == 'Break' and tb.get('e') is None and tb.get('target') in (None, loop_id):
                    rest = {'k': 'Block', 'l': body.get('l'), 'stmts': body['stmts'][1:], 'expr': body.get('expr')}
                    w = {'k': 'Loop', 'src': 'While', 'id': loop_id, 'l': e.get('l'), '_as_while': True,
                         'body': {'k': 'Block', 'stmts': [], 'expr': {
                             'k': 'If', 'l': st0.get('l'), 'c': {'k': 'Unary', 'op': 'Not', 'a': st0['c'], 'l': st0.get('l'), 'ty': 'bool'},
                             't': rest, 'e': st0['t']}}}
                    return self.e_Loop(w, env)
        ex = self.explicit_iterator_loop(e, env)
        if ex is not None:
            it_id, it_term, pat, lbody, wrap = ex
            r = self.iterate(it_term, pat, lbody, loop_id, env, e, wrap=wrap)
            # the iterator has been run to its end
            env[it_id] = ('call', 'after', (it_term, ('lit', 'exhausted', ''), ('lit', 0, '#')))
            return r
        for _ in range(self.policy.loop_cut or 70):
            if is_while:
                c = ifn['c']
                sym_iter = None
                if c['k'] == 'LetExpr':
                    v = self.refine(self.expr(c['init'], env))
                    if v[0] not in ('ctor', 'lit', 'tup', 'list'):
                        head = self.adt_of_ty(c['init'].get('ty'))
                        payload = some(('ok', v)) if head in (OPTION, 'core::option::Option') else None
                        if payload is None:
                            raise EvalError('while-let over opaque non-Option at line %s' % e.get('l'))
                        sym_iter = (v, lambda env2: self.match(c['pat'], payload, env2, irrefutable=True))
                    else:
                        env2 = {}
                        if not self.match(c['pat'], v, env2):
                            return UNIT
                        env.update(env2)
                        try:
                            self.expr(ifn['t'], env)
                        except ContinueEx as c:
                            if c.target not in (loop_id, None):
                                raise
                            continue
                        except BreakEx as b:
                            if b.target in (loop_id, None):
                                return b.v if b.v is not None else UNIT
                            raise
                        continue
                else:
                    h0 = getattr(self, 'asm_hits', 0)
                    try:
                        cv = self.refine(self.expr(c, env))
                        if cv[0] == 'lit' and isinstance(cv[1], bool) and getattr(self, 'asm_hits', 0) > h0:
                            # "literal" only because this world assumed the opaque condition: the loop is symbolic.  In a
                            # world that assumes the condition false the loop does not run; otherwise one generic iteration.
                            if not cv[1]:
                                return UNIT
                            cn, negs = c, 0
                            while cn.get('k') == 'Unary' and cn.get('op') == 'Not':
                                cn, negs = cn['a'], negs + 1
                            at = self.last_atom
                            if negs % 2 == 1:
                                at = ('un', 'Not', at)
                            cv = ('call', 'cond', (at,))
                    except NeedSplit as ns:
                        # keep the (first undecided part of the) condition as the loop's marker
                        cn, negs = c, 0
                        while cn.get('k') == 'Unary' and cn.get('op') == 'Not':
                            cn, negs = cn['a'], negs + 1
                        at = ns.key[1] if isinstance(ns.key, tuple) and ns.key and ns.key[0] == 'atom' else None
                        if at is not None and negs % 2 == 1:
                            at = ('un', 'Not', at)
                        cv = ('call', 'cond', (at,)) if at is not None else ('unknown', 'cond')
                    if cv[0] == 'lit' and isinstance(cv[1], bool):
                        if not cv[1]:
                            return UNIT
                        try:
                            self.expr(ifn['t'], env)
                        except ContinueEx as c:
                            if c.target not in (loop_id, None):
                                raise
                            continue
                        except BreakEx as b:
                            if b.target in (loop_id, None):
                                return b.v if b.v is not None else UNIT
                            raise
                        continue
                    sym_iter = (cv, lambda env2: True)
                # one generic iteration
                src, binder = sym_iter
                marker = ('call', 'while', (src,))
                self.loops.append(marker)
                self.effect('loop_begin', 'while', (src,), e)
                lvars = {}
                for vid, vname in assigned_locals(ifn['t']).items():
                    if vid in env:
                        lv = ('call', 'loopvar', (marker, env[vid], ('lit', vname, '')))
                        lvars[vid] = lv
                        env[vid] = lv
                snapshot = dict(env)
                try:
                    binder(env)
                    try:
                        self.expr(ifn['t'], env)
                    except ContinueEx as c:
                        if c.target not in (loop_id, None):
                            raise
                    except BreakEx as b:
                        if b.target not in (loop_id, None):
                            raise
                finally:
                    self.loops.pop()
                    self.effect('loop_end', 'while', (src,), e)
                for vid, lv in lvars.items():
                    upd = env.get(vid)
                    self.effect('loop_update', lv[2][2][1], (lv, upd), e)
                    env[vid] = ('call', 'loop_result', (lv, upd))
                    snapshot[vid] = env[vid]
                for kk, vv in list(env.items()):
                    if kk in snapshot and snapshot[kk] != vv:
                        env[kk] = ('call', 'loop_carried', (marker, vv))
                return UNIT
            try:
                self.block(body, env)
            except ContinueEx as c:
                if c.target not in (loop_id, None):
                    raise
                continue
            except BreakEx as b:
                if b.target in (loop_id, None):
                    return b.v if b.v is not None else UNIT
                raise
        if self.policy.loop_cut:
            raise Pruned('loop unrolled to the bound at line %s' % e.get('l'))
        raise EvalError('loop bound exceeded at line %s' % e.get('l'))

    def e_Break(self, e, env):
        v = self.expr(e['e'], env) if 'e' in e else None
        raise BreakEx(e.get('target'), v)

    def e_Continue(self, e, env):
        raise ContinueEx(e.get('target'))

    def e_Ret(self, e, env):
        v = self.expr(e['e'], env) if 'e' in e else UNIT
        raise ReturnEx(v)

    def e_Assign(self, e, env):
        v = self.expr(e['b'], env)
        self.place_assign(e['a'], v, env)
        return UNIT

    def e_AssignOp(self, e, env):
        a = self.refine(self.expr(e['a'], env))
        b = self.refine(self.expr(e['b'], env))
        op = e['op'].replace('Assign', '')
        ty = e['a'].get('ty', '')
        r = self.binop(op, a, b, strip_ty(ty))
        self.place_assign(e['a'], r, env)
        return UNIT

    def mut_locals(self, e):
        """locals handed to this call by mutable reference: [(local id, name)]"""
        out = []
        cands = []
        if e.get('k') == 'MethodCall':
            if (e.get('recv_ty') or '').startswith('&mut'):
                cands.append((e['recv'], True))
            cands += [(a, False) for a in e.get('args', [])]
        else:
            cands += [(a, False) for a in e.get('args', [])]
        for n, is_recv in cands:
            explicit = False
            while n.get('k') == 'AddrOf':
                explicit = explicit or n.get('mut')
                n = n['e']
            if n.get('k') == 'Path' and n.get('res') == 'local':
                ty = n.get('ty') or ''
                if (explicit or is_recv) and not ty.startswith('&'):
                    out.append((n['id'], n.get('name')))
                continue
            # a mutable borrow wrapped in a value: `map.as_mut()`, `Some(&mut v)`, `v.iter_mut()` ...
            if '&mut ' in (n.get('ty') or '') and not is_recv:
                m = n
                for _ in range(6):
                    k = m.get('k')
                    if k == 'MethodCall' and (m.get('method') or (m.get('callee') or '').split('::')[-1]) in (
                            'as_mut', 'as_deref_mut', 'as_mut_slice', 'iter_mut', 'by_ref', 'unwrap', 'expect', 'get_mut'):
                        m = m['recv']
                    elif k == 'Call' and m.get('ctor') and len(m.get('args', [])) == 1:
                        m = m['args'][0]
                    elif k == 'AddrOf':
                        m = m['e']
                    else:
                        break
                if m.get('k') == 'Path' and m.get('res') == 'local' and not (m.get('ty') or '').startswith('&'):
                    out.append((m['id'], m.get('name')))
        return out

    def havoc_after_opaque(self, e, env, result):
        """an uninterpreted callee may have written through `&mut local` arguments"""
        if not (isinstance(result, tuple) and result and result[0] == 'call'):
            return
        for vid, name in self.mut_locals(e):
            old = env.get(vid)
            if old is None:
                continue
            if old[0] in ('list',) and result[1] in ('std::vec::Vec::push',):
                continue
            last = result[1].split('::')[-1]
            if old[0] in ('list', 'seq') and (last.startswith('sort') or last in ('reverse', 'shrink_to_fit', 'reserve')):
                # reorders / reserves only: the abstract collection (its generic element) is unchanged; the reordering is
                # recorded so that rules about flows whose order carries meaning can object to it
                if last not in ('shrink_to_fit', 'reserve'):
                    self.effect('reorder', result[1], (old,), e)
                if last == 'reverse' and old[0] == 'list':
                    env[vid] = ('list', tuple(reversed(old[1])))     # a concrete list is reversed concretely
                continue
            self.mutseq += 1
            env[vid] = ('call', 'after', (old, ('lit', result[1].split('::')[-1], ''), ('lit', self.mutseq, '#')))

    def e_Call(self, e, env):
        f = e['f']
        if e.get('ctor'):
            args = [self.expr(x, env) for x in e['args']]
            return ctor(f['adt'], f['variant'], [(str(i), a) for i, a in enumerate(args)])
        if 'callee' in e:
            args = [self.expr(x, env) for x in e['args']]
            recv_ty = None
            if e.get('trait') and e['args']:
                recv_ty = e['args'][0].get('ty')
            r = self.do_call(e['callee'], args, e, trait=e.get('trait'), recv_ty=recv_ty)
            if self.last_opaque is not None and self.last_opaque is r:
                self.havoc_after_opaque(e, env, r)
            return r
        fv = self.refine(self.expr(f, env))
        args = [self.expr(x, env) for x in e['args']]
        if fv[0] == 'closure':
            return self.call_closure(fv, args, e)
        if fv[0] == 'ctorfn':
            return ctor(fv[1], fv[2], [(str(i), a) for i, a in enumerate(args)])
        if fv[0] == 'fnitem':
            return self.do_call(fv[1], args, e)
        self.effect('indirect_call', show(fv), args, e)
        return ('call', 'apply', (fv,) + tuple(args))

    def e_MethodCall(self, e, env):
        callee = e.get('callee')
        np = norm_path(callee) if callee else None
        recv_node = e['recv']
        # Vec::push on a local list
        if np in ('std::vec::Vec::push', 'std::vec::Vec::insert', 'std::vec::Vec::extend',
                  'std::iter::Extend::extend'):
            recv = self.refine(self.expr(recv_node, env))
            args = [self.expr(x, env) for x in e['args']]
            if np == 'std::vec::Vec::push' and recv[0] == 'list':
                self.place_assign(strip_place(recv_node), ('list', recv[1] + (args[0],)), env)
                return UNIT
            self.effect('call', np, [recv] + args, e)
            if np.endswith('::extend') and len(args) == 1 and strip_place(recv_node).get('k') == 'Path' \
                    and strip_place(recv_node).get('res') == 'local':
                # a still-empty local collection filled from one iterator holds exactly that iterator's items
                empty = recv == ('list', ()) or (recv[0] == 'call' and not recv[2] and
                                                  re.search(r'(default|new|with_capacity)(@|$)|with_capacity', recv[1]) is not None)
                if empty:
                    try:
                        sq = self.seq_of(args[0])
                    except EvalError:
                        sq = None
                    if sq is not None and sq[0] in ('seq', 'list'):
                        self.place_assign(strip_place(recv_node), sq, env)
            return UNIT
        recv = self.expr(recv_node, env)
        args = [recv] + [self.expr(x, env) for x in e['args']]
        r = self.do_call(callee, args, e, trait=e.get('trait'), recv_ty=e.get('recv_ty'), method=e.get('method'))
        if self.last_opaque is not None and self.last_opaque is r:
            self.havoc_after_opaque(e, env, r)
            # an in-place rewrite of a collection that sits in a field of something we only hold a reference to
            # (`record.bytes.reverse()`): observable like an assignment to that field
            place = strip_place(recv_node)
            last = (e.get('method') or (callee or '').split('::')[-1])
            if place.get('k') == 'Field' and last in INPLACE_REWRITES and not self.policy.is_effect(norm_path(callee or '')):
                base = self.refine(self.expr(place['e'], env))
                if base[0] != 'ctor':
                    self.mutseq += 1
                    self.effect('store', show_place(place), (base, ('call', 'after', (recv, ('lit', last, ''), ('lit', self.mutseq, '#')))), e)
        return r

    def e_ConstBlock(self, e, env):
        return ('unknown', 'constblock')

    def e_Semi(self, e, env):
        self.expr(e['e'], env)
        return UNIT


NOTBUILTIN = object()
INPLACE_REWRITES = {'reverse', 'sort', 'sort_unstable', 'sort_by', 'sort_by_key', 'sort_unstable_by', 'sort_unstable_by_key', 'swap',
                    'rotate_left', 'rotate_right', 'truncate', 'clear', 'retain', 'dedup', 'dedup_by', 'dedup_by_key', 'drain',
                    'remove', 'swap_remove', 'pop', 'fill', 'make_ascii_lowercase', 'make_ascii_uppercase', 'split_off'}


def assigned_fields(node):
    """{(local id, field): 'local.field'} for targets of `=` / `op=` of the form `local.field` (not in closures)"""
    out = {}

    def walk(n):
        if isinstance(n, dict):
            if n.get('k') == 'Closure':
                return
            if n.get('k') in ('Assign', 'AssignOp'):
                t = n['a']
                if t.get('k') == 'Field' and t['e'].get('k') == 'Path' and t['e'].get('res') == 'local' \
                        and not (t['e'].get('ty') or '').startswith('&'):
                    out[(t['e']['id'], t['name'])] = '%s.%s' % (t['e'].get('name'), t['name'])
            for v in n.values():
                walk(v)
        elif isinstance(n, list):
            for v in n:
                walk(v)
    walk(node)
    return out


def assigned_fields_through_ref(node, local_id):
    """like assigned_fields, for a local that is a reference (`self` of a `&mut self` method): fields written through it"""
    out = {}

    def walk(n):
        if isinstance(n, dict):
            if n.get('k') == 'Closure':
                return
            if n.get('k') in ('Assign', 'AssignOp'):
                t = n['a']
                while t.get('k') == 'Unary' and t.get('op') == 'Deref':
                    t = t['a']
                if t.get('k') == 'Field':
                    b = t['e']
                    while b.get('k') == 'Unary' and b.get('op') == 'Deref':
                        b = b['a']
                    if b.get('k') == 'Path' and b.get('res') == 'local' and b.get('id') == local_id:
                        out[(local_id, t['name'])] = t['name']
            for v in n.values():
                walk(v)
        elif isinstance(n, list):
            for v in n:
                walk(v)
    walk(node)
    return out


def derived_default_shape(h):
    """the body `#[derive(Default)]` generates: a struct literal whose every field is `Default::default()`"""
    b = h.get('body') or {}
    while b.get('k') == 'Block' and not b.get('stmts') and b.get('expr'):
        b = b['expr']
    if b.get('k') != 'Struct':
        return False
    for f in b.get('fields', []):
        e = f.get('e') or {}
        if not (e.get('k') == 'Call' and norm_path(e.get('callee') or '').endswith('default::Default::default') and not e.get('args')):
            return False
    return True


def with_field(c, name, val):
    return ('ctor', c[1], c[2], tuple((k, (val if k == name else v)) for k, v in c[3]))


def assigned_locals(node):
    """ids of locals that are targets of `=` / `op=` inside node (not descending into closures)"""
    out = {}

    def tgt(t):
        while t.get('k') == 'Unary' and t.get('op') == 'Deref':
            t = t['a']
        if t.get('k') == 'Path' and t.get('res') == 'local' and not (t.get('ty') or '').startswith('&'):
            out[t['id']] = t.get('name')

    def walk(n):
        if isinstance(n, dict):
            if n.get('k') == 'Closure':
                return
            if n.get('k') in ('Assign', 'AssignOp'):
                tgt(n['a'])
            for v in n.values():
                walk(v)
        elif isinstance(n, list):
            for v in n:
                walk(v)
    walk(node)
    return out


def strip_place(n):
    while n['k'] in ('AddrOf',) or (n['k'] == 'Unary' and n['op'] == 'Deref'):
        n = n['e'] if n['k'] == 'AddrOf' else n['a']
    return n


def show_place(n):
    if n['k'] == 'Path':
        return n.get('name') or n.get('def') or '?'
    if n['k'] == 'Field':
        return show_place(n['e']) + '.' + n['name']
    if n['k'] == 'Unary':
        return show_place(n['a'])
    if n['k'] == 'AddrOf':
        return show_place(n['e'])
    if n['k'] == 'MethodCall':
        return show_place(n['recv']) + '.' + n['method'] + '()'
    if n['k'] == 'Index':
        return show_place(n['a']) + '[]'
    return n['k']


def ty_tuple_elems(ty):
    t = strip_ty(ty or '')
    if not (t.startswith('(') and t.endswith(')')):
        return []
    inner = t[1:-1]
    out, depth, cur = [], 0, ''
    for ch in inner:
        if ch in '<([':
            depth += 1
        elif ch in '>)]':
            depth -= 1
        if ch == ',' and depth == 0:
            out.append(cur.strip())
            cur = ''
        else:
            cur += ch
    if cur.strip():
        out.append(cur.strip())
    return out
