"""Virtual inlining on the MIR facts.

`inline_local(F, root)` returns a body in the same JSON shape as F.mir[root] in which every call to a
function written in the same source file as `root` (a helper a maintainer may have split off) is replaced by
a copy of that function's blocks: arguments become assignments to the callee's (renumbered) parameter locals,
`Return` becomes an assignment of the callee's return place to the call's destination followed by a jump to
the call's continuation.  Rules that reason with dominance / control dependence inside one function body are
run on this expanded body, so their verdict does not depend on how the code is divided into helpers.

Every block carries 'fn' (the function it was copied from) and 'obb' (its index there) for reporting.
Recursion and depth are bounded; trait-object and generic-dispatch calls are left alone (only calls whose
callee rustc resolved to a local item are expanded)."""
import copy
import re
from heval import file_of, norm_path


def _is_place(x):
    return isinstance(x, list) and x and isinstance(x[0], int) and all(isinstance(y, str) for y in x[1:])


def _shift(node, lbase, bbase):
    """deep-copy `node`, adding lbase to every local and bbase to every block index"""
    if _is_place(node):
        out = [node[0] + lbase]
        for s in node[1:]:
            m = re.match(r'^\[_(\d+)\]$', s)
            out.append('[_%d]' % (int(m.group(1)) + lbase) if m else s)
        return out
    if isinstance(node, dict):
        out = {}
        for k, v in node.items():
            if k in ('target', 'otherwise', 'unwind') and isinstance(v, int):
                out[k] = v + bbase
            elif k == 'targets' and isinstance(v, list):
                out[k] = [[x[0], x[1] + bbase] for x in v]
            elif k in ('l', 'fl', 'variant'):
                out[k] = v
            else:
                out[k] = _shift(v, lbase, bbase)
        return out
    if isinstance(node, list):
        return [_shift(x, lbase, bbase) for x in node]
    return node


def mir_key(F, p):
    """key of F.mir for a (normalised) callee path: impl blocks with generics keep them in the key ('Ctx::<'a>::f')"""
    if p in F.mir:
        return p
    if not hasattr(F, '_norm_mir'):
        F._norm_mir = {}
        for k in F.mir:
            F._norm_mir.setdefault(norm_path(k), k)
    return F._norm_mir.get(p, p)


def callee_of(t, F=None):
    k = (t.get('func') or {}).get('k') or {}
    if k.get('rlocal') and k.get('resolved') and k.get('rkind') == 'item':
        p = norm_path(k['resolved'])
        return mir_key(F, p) if F is not None else p
    return None


def inline_local(F, root, expand=None, keep=(), max_depth=4, max_blocks=6000):
    home = file_of(F, root)
    keep_rx = [re.compile(k) for k in keep]

    def default_expand(p):
        if p not in F.mir or p == root or file_of(F, p) != home:
            return False
        if any(r.search(p) for r in keep_rx):
            return False
        return True
    expand = expand or default_expand
    src = F.mir[root]
    body = {'path': root, 'sp': src.get('sp'), 'arg_count': src.get('arg_count'), 'locals': [dict(l) for l in src['locals']],
            'blocks': [], 'inlined': []}
    for i, b in enumerate(src['blocks']):
        nb = copy.deepcopy(b)
        nb['fn'] = root
        nb['obb'] = i
        body['blocks'].append(nb)
    work = [(i, 0, (root,)) for i in range(len(body['blocks']))]
    while work:
        bi, depth, chain = work.pop(0)
        b = body['blocks'][bi]
        t = b['term']
        if t.get('t') != 'Call':
            continue
        callee = callee_of(t, F)
        if callee is None or depth >= max_depth or callee in chain or not expand(callee):
            continue
        cb = F.mir[callee]
        if len(body['blocks']) + len(cb['blocks']) > max_blocks:
            continue
        lbase = len(body['locals'])
        bbase = len(body['blocks'])
        for l in cb['locals']:
            nl = dict(l)
            nl['of'] = callee
            body['locals'].append(nl)
        # arguments -> parameter locals
        line = t.get('l')
        for k, a in enumerate(t.get('args') or []):
            b['stmts'].append({'s': 'Assign', 'l': line, 'p': [lbase + 1 + k], 'r': {'rv': 'Use', 'a': a}, 'arg_of': callee})
        cont = t.get('target')
        dest = t.get('dest')
        unwind = t.get('unwind')
        b['term'] = {'t': 'Goto', 'l': line, 'target': bbase, 'inlined_call': callee, 'call': t}
        body['inlined'].append(callee)
        for j, ob in enumerate(cb['blocks']):
            nb = _shift(ob, lbase, bbase)
            nb['fn'] = callee
            nb['obb'] = j
            tt = nb['term']
            if tt.get('t') == 'Return':
                if dest is not None:
                    nb['stmts'].append({'s': 'Assign', 'l': tt.get('l'), 'p': list(dest), 'r': {'rv': 'Use', 'a': {'m': [lbase]}},
                                        'ret_of': callee})
                if cont is not None:
                    nb['term'] = {'t': 'Goto', 'l': tt.get('l'), 'target': cont, 'return_of': callee}
                else:
                    nb['term'] = {'t': 'Unreachable', 'l': tt.get('l')}
            elif tt.get('t') == 'UnwindResume' and isinstance(unwind, int):
                nb['term'] = {'t': 'Goto', 'l': tt.get('l'), 'target': unwind}
            body['blocks'].append(nb)
            work.append((bbase + j, depth + 1, chain + (callee,)))
    return body
