"""Intra-procedural helpers over MIR facts."""
from cfg import Cfg, callee_name, callee_fn, operand_place
from heval import norm_path


def body_of(F, path):
    b = F.mir.get(path)
    if b is None:
        raise KeyError('no MIR for ' + path)
    return b


def find_fn(F, suffix, where='mir'):
    """unique def path ending in suffix"""
    table = F.mir if where == 'mir' else F.hir
    c = [p for p in table if p == suffix or p.endswith('::' + suffix)]
    if len(c) == 1:
        return c[0]
    if not c:
        return None
    # prefer exact module-qualified matches
    c.sort(key=len)
    return c[0]


def flow_locals(body, start_locals, through_calls=()):
    """locals that (transitively) hold a copy / move / reference / cast / field-less reborrow of any start local.
    through_calls: normalised callee names whose result is considered to carry its first argument (e.g. Deref)"""
    held = set(start_locals)
    changed = True
    while changed:
        changed = False
        for b in body['blocks']:
            for s in b['stmts']:
                if s.get('s') != 'Assign':
                    continue
                dst = s['p']
                if len(dst) != 1:
                    continue
                r = s['r']
                src = None
                if r['rv'] in ('Use', 'Cast'):
                    pl = operand_place(r['a'])
                    if pl is not None:
                        src = pl
                elif r['rv'] in ('Ref', 'RawPtr'):
                    src = r['p']
                if src is not None and src[0] in held and all(x == '*' for x in src[1:]):
                    if dst[0] not in held:
                        held.add(dst[0])
                        changed = True
            t = b['term']
            if t['t'] == 'Call' and through_calls:
                cn = norm_path(callee_name(t) or '')
                if cn in through_calls and t['args']:
                    pl = operand_place(t['args'][0])
                    if pl is not None and pl[0] in held and len(t['dest']) == 1 and t['dest'][0] not in held:
                        held.add(t['dest'][0])
                        changed = True
    return held


def calls_to(body, pred):
    """[(bb, term)] for calls whose (resolved or declared) callee satisfies pred(name)"""
    out = []
    for i, b in enumerate(body['blocks']):
        if b.get('cleanup'):
            continue
        t = b['term']
        if t['t'] in ('Call', 'TailCall'):
            names = set()
            k = t['func'].get('k') or {}
            for key in ('fn', 'resolved'):
                if k.get(key):
                    names.add(norm_path(k[key]))
            if any(pred(n) for n in names):
                out.append((i, t))
    return out


def arg_locals(term):
    out = []
    for a in term.get('args', []):
        pl = operand_place(a)
        out.append(pl[0] if pl is not None else None)
    return out


def where(body, bb):
    t = body['blocks'][bb]['term']
    sp = body.get('sp', '?')
    f = sp.split(':')[0]
    return '%s:%s (%s)' % (f, t.get('l'), body['path'])
