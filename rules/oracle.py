"""Oracle tables extracted from the vendored sources of the wasm-tools crates
that /repo/Cargo.lock pins (never restated by hand):

 * wasmparser/src/lib.rs `for_each_operator!`   -> operator -> (proposal, [(field, type)])
 * wasm-encoder/src/reencode.rs `translate!`     -> field name -> index space / conversion kind,
                                                    and the special-cased builders
 * wasmparser/src/validator/core.rs / validator.rs `enum Order` -> section order
"""
import os
import re
import glob
import json
import subprocess

_cache = {}


def crate_dir(repo, name):
    """source directory of the version of `name` that repo/Cargo.lock pins"""
    key = (repo, name)
    if key in _cache:
        return _cache[key]
    lock = open(os.path.join(repo, 'Cargo.lock')).read()
    # the version the `walrus` package itself depends on
    ver = None
    wm = re.search(r'name = "walrus"\nversion = "[^"]+"\ndependencies = \[(.*?)\]', lock, re.S)
    if wm:
        for dep in re.findall(r'"([^"]+)"', wm.group(1)):
            parts = dep.split()
            if parts[0] == name and len(parts) > 1:
                ver = parts[1]
    if ver is None:
        vs = re.findall(r'name = "%s"\nversion = "([^"]+)"' % re.escape(name), lock)
        if len(vs) != 1:
            raise RuntimeError('cannot determine pinned version of %s' % name)
        ver = vs[0]
    home = os.environ.get('CARGO_HOME', os.path.expanduser('~/.cargo'))
    cands = glob.glob(os.path.join(home, 'registry/src/*/%s-%s' % (name, ver)))
    if not cands:
        raise RuntimeError('vendored source of %s %s not found' % (name, ver))
    _cache[key] = cands[0]
    return cands[0]


def operators(repo):
    """[(proposal, Name, [(field, ty)])] in macro order"""
    d = crate_dir(repo, 'wasmparser')
    src = open(os.path.join(d, 'src/lib.rs')).read()
    i = src.index('macro_rules! for_each_operator')
    j = src.index('macro_rules!', i + 10) if 'macro_rules!' in src[i + 10:] else len(src)
    body = src[i:j]
    out = []
    for m in re.finditer(r'@(\w+)\s+(\w+)\s*(\{[^}]*\})?\s*=>\s*(visit_\w+)', body):
        prop, name, fields, _ = m.groups()
        fl = []
        if fields:
            inner = fields.strip()[1:-1]
            depth, cur, parts = 0, '', []
            for ch in inner:
                if ch in '<[(':
                    depth += 1
                elif ch in '>])':
                    depth -= 1
                if ch == ',' and depth == 0:
                    parts.append(cur)
                    cur = ''
                else:
                    cur += ch
            if cur.strip():
                parts.append(cur)
            for p in parts:
                if ':' in p:
                    fn, ft = p.split(':', 1)
                    fl.append((fn.strip(), ft.strip()))
        out.append((prop, name, fl))
    return out


def translate_table(repo):
    """field name -> kind ('function','table','type','global','memory','data','element','tag',
       'identity','block_type','val_type','heap_type','ref_type','mem_arg','ordering','br_table')
       plus the set of special-cased builders"""
    d = crate_dir(repo, 'wasm-encoder')
    src = open(os.path.join(d, 'src/reencode.rs')).read()
    i = src.index('macro_rules! translate')
    j = src.index('wasmparser::for_each_operator!(translate)', i)
    body = src[i:j]
    fmap = {}
    for m in re.finditer(r'\(map \$arg:ident (\w+)\) => \((.*?)\);', body, re.S):
        fname, rhs = m.group(1), m.group(2)
        mm = re.search(r'reencoder\.(\w+)\(\$arg\)', rhs)
        if mm:
            k = mm.group(1)
            k = {'function_index': 'function', 'table_index': 'table', 'type_index': 'type',
                 'global_index': 'global', 'memory_index': 'memory', 'data_index': 'data',
                 'element_index': 'element', 'tag_index': 'tag'}.get(k, k)
            fmap[fname] = k
        elif rhs.strip() == '$arg':
            fmap[fname] = 'identity'
        elif '.targets()' in rhs:
            fmap[fname] = 'br_table'
        else:
            fmap[fname] = 'other'
    special = set()
    for m in re.finditer(r'\(build (\w+) \$\w+:ident\) =>', body):
        special.add(m.group(1))
    return fmap, special


def section_order(repo):
    """wasmparser validator's `enum Order` variants in order"""
    d = crate_dir(repo, 'wasmparser')
    for rel in ('src/validator.rs', 'src/validator/core.rs'):
        p = os.path.join(d, rel)
        if not os.path.exists(p):
            continue
        src = open(p).read()
        m = re.search(r'enum Order \{(.*?)\}', src, re.S)
        if m:
            names = [x.strip() for x in re.sub(r'//.*', '', m.group(1)).replace('#[default]', '').split(',')]
            return [n for n in names if n]
    raise RuntimeError('enum Order not found')


def feature_default_bits(repo):
    """names of WasmFeatures flags and their default (from the define_wasm_features! invocation)"""
    d = crate_dir(repo, 'wasmparser')
    src = open(os.path.join(d, 'src/features.rs')).read()
    out = {}
    for m in re.finditer(r'pub (\w+): (\w+)\(([^)]*)\) = (true|false);', src):
        out[m.group(2)] = {'field': m.group(1), 'default': m.group(4) == 'true'}
    return out


if __name__ == '__main__':
    import sys
    repo = sys.argv[1] if len(sys.argv) > 1 else '/repo'
    ops = operators(repo)
    print(len(ops))
    fm, sp = translate_table(repo)
    print(fm)
    print(sp)
    print(section_order(repo))
    print(feature_default_bits(repo))


def record_maps(repo):
    """wasm_encoder struct <- wasmparser struct field maps read from reencode.rs:
       {'MemoryType': {'minimum': ('initial', None), ...}, ...} ; conversion is the reencoder method name or None"""
    d = crate_dir(repo, 'wasm-encoder')
    src = open(os.path.join(d, 'src/reencode.rs')).read()
    out = {}
    for fn, sname in (('memory_type', 'MemoryType'), ('table_type', 'TableType'), ('global_type', 'GlobalType')):
        m = re.search(r'pub fn %s<.*?\{(.*?)\n    \}' % fn, src, re.S)
        if not m:
            raise RuntimeError('reencode::%s not found' % fn)
        body = m.group(1)
        mm = re.search(r'crate::%s \{(.*?)\}' % sname, body, re.S)
        fields = {}
        for fm in re.finditer(r'(\w+):\s*(?:reencoder\.(\w+)\()?(\w+)\.(\w+)\)?\??\s*,', mm.group(1)):
            fields[fm.group(1)] = (fm.group(4), fm.group(2))
        out[sname] = fields
    return out


def variant_maps(repo):
    """enum -> enum variant maps from reencode.rs: entity_type (TypeRef -> EntityType), export_kind"""
    d = crate_dir(repo, 'wasm-encoder')
    src = open(os.path.join(d, 'src/reencode.rs')).read()
    out = {}
    for fn in ('entity_type', 'export_kind'):
        m = re.search(r'pub fn %s<.*?\{(.*?)\n    \}' % fn, src, re.S)
        mp = {}
        for vm in re.finditer(r'wasmparser::(\w+)::(\w+)(?:\(\w+\))?\s*=>\s*crate::(\w+)::(\w+)', m.group(1)):
            mp[vm.group(2)] = vm.group(4)
        out[fn] = mp
    return out
