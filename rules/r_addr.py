"""R-ADDR: the two halves of DWARF address translation agree with each other (C10).

`CodeAddressGenerator::find_address` classifies an input code address into a `CodeAddress`;
`CodeAddressConverter::find_address` turns a `CodeAddress` into an output offset.  They are sibling
tables over one enum, and the property needs them to be inverse up to the recorded layout:

  class              generator (input side)                                   converter (output side)
  InstrInFunction    exact hit in the instruction table -> that entry's id    instruction_map[hit(id)].1
  InstrEdge          entry i after the miss, entry.0 - 1 == address           instruction_map[hit(id)].1 - 1
  OffsetInFunction   range hit, offset = address - range.start                function_ranges[hit(id)].1.start + offset
  FunctionEdge       range hit and address == range.end                       function_ranges[hit(id)].1.end
  Unknown            nothing matched                                          None
  (any)              -                                                        None when the id is not in the output

Both functions are evaluated with nothing inlined; each world's result is compared, after normalising
the binary-search hit/miss terms, with the row above.  The two range comparators are closures whose only
operations on their inputs are comparisons, so they are decided over the finite set of orderings of
(start, end, address): inclusive = start < a <= end, exclusive = start <= a < end, selected by the
matching `AddressSearchPreference`.
"""
import itertools
from registry import RuleResult
from heval import Evaluator, Policy, EvalError, sym, show, lit

GEN = 'module::debug::expression::CodeAddressGenerator::find_address'
CONV = "module::debug::expression::CodeAddressConverter::<'a>::find_address"


def is_bs(t):
    return isinstance(t, tuple) and t and t[0] == 'call' and isinstance(t[1], str) and 'binary_search' in t[1]


def norm(t):
    """replace binary-search results by HIT(table)/MISS(table) and drop closure identities"""
    if isinstance(t, tuple):
        if t and t[0] == 'ok' and is_bs(t[1]):
            return ('HIT', show(t[1][2][0]).split('.')[-1])
        if t and t[0] == 'field' and is_bs(t[1]) and t[2] in ('Ok.0', 'ok'):
            return ('HIT', show(t[1][2][0]).split('.')[-1])
        if t and t[0] == 'field' and is_bs(t[1]) and t[2] in ('err', 'Err.0'):
            return ('MISS', show(t[1][2][0]).split('.')[-1])
        if t and t[0] == 'ok' and isinstance(t[1], tuple) and t[1] and t[1][0] == 'call' and t[1][1].endswith('::get') and len(t[1][2]) == 2:
            return ('call', 'index', (norm(t[1][2][0]), norm(t[1][2][1])))
        if t and t[0] == 'closure':
            return ('closure', ('fn', 0))
        return tuple(norm(x) for x in t)
    return t


def has_sub(t, what):
    if t == what:
        return True
    if isinstance(t, tuple):
        return any(has_sub(x, what) for x in t)
    return False


def sh(t):
    t = norm(t)

    def go(x):
        if isinstance(x, tuple) and x and x[0] in ('HIT', 'MISS'):
            return '%s(%s)' % (x[0], x[1])
        if isinstance(x, tuple) and x and x[0] == 'call' and x[1] == 'index':
            return '%s[%s]' % (go(x[2][0]).split('.')[-1], go(x[2][1]))
        if isinstance(x, tuple) and x and x[0] == 'field':
            return go(x[1]) + '.' + x[2]
        if isinstance(x, tuple) and x and x[0] == 'bin':
            return '(%s %s %s)' % (go(x[2]), x[1], go(x[3]))
        if isinstance(x, tuple) and x and x[0] == 'ctor':
            return '%s{%s}' % (x[2], ', '.join('%s: %s' % (k, go(v)) for k, v in x[3]))
        return show(x)
    return go(t)


def searches(w):
    """{table: 'Ok'|'Err'} of the binary searches this world went through, in order"""
    out = []
    for k, v in w.assumptions:
        if is_bs(k) and isinstance(v, tuple) and v[0] == 'ctor':
            keyarg = k[2][1] if 'by_key' in k[1] else None
            out.append((show(k[2][0]).split('.')[-1], v[2], show(keyarg) if keyarg is not None else None))
    return out


def run(ctx):
    F = ctx.F
    res = RuleResult('R-ADDR', 'address classification and conversion are inverse tables over CodeAddress; range comparators exact')
    res.floor = 14
    for p in (GEN, CONV):
        if p not in F.hir:
            res.error('anchor lost: ' + p)
            return res
    from heval import local_policy
    nop = local_policy(F, GEN, events=[r'^std::', r'^core::'], loop_cut=3, split_try='option')
    try:
        converter(F, res, nop)
        generator(F, res, nop)
    except EvalError as e:
        res.error('not analysable: %s' % e)
    res.exhaustive = True
    return res


CONV_ROWS = {
    'InstrInFunction': ('instruction_map', 'code.InstrInFunction.instr_id', 'Some{0: instruction_map[HIT(instruction_map)].1}'),
    'InstrEdge': ('instruction_map', 'code.InstrEdge.instr_id', 'Some{0: (instruction_map[HIT(instruction_map)].1 Sub 1)}'),
    'OffsetInFunction': ('function_ranges', 'code.OffsetInFunction.id',
                         'Some{0: (function_ranges[HIT(function_ranges)].1.start Add code.OffsetInFunction.offset)}'),
    'FunctionEdge': ('function_ranges', 'code.FunctionEdge.id', 'Some{0: function_ranges[HIT(function_ranges)].1.end}'),
}


def converter(F, res, nop):
    ws = Evaluator(F, nop).run_fn(CONV, [sym('self'), sym('code')])
    seen = set()
    for w in ws:
        if w.outcome != 'return':
            res.bad('convert/panics', 'CodeAddressConverter::find_address can panic (%s)' % w.outcome)
            continue
        var = [v[2] for k, v in w.assumptions if k == sym('code') and isinstance(v, tuple) and v[0] == 'ctor']
        if not var:
            continue
        v = var[0]
        got = sh(w.value)
        ss = searches(w)
        if v == 'Unknown':
            key = 'convert/Unknown'
            good = got == 'None{}' and not ss
            want = 'None'
        else:
            tbl, keyterm, some = CONV_ROWS.get(v, (None, None, None))
            if tbl is None:
                res.bad('convert/%s/unexpected-class' % v, 'CodeAddress::%s has no row in the conversion table of the rule; add it' % v)
                continue
            hit = ss and ss[0][1] == 'Ok'
            key = 'convert/%s/%s' % (v, 'hit' if hit else 'miss')
            want = some if hit else 'None{}'
            good = len(ss) == 1 and ss[0][0] == tbl and ss[0][2] == keyterm and got == want
        seen.add(key)
        if good:
            res.ok(key, {'class': v, 'output': got})
        else:
            res.bad(key, 'CodeAddress::%s is converted to %s (searches %s); the classification side requires %s'
                    % (v, got[:140], ss, want))
    for v in list(CONV_ROWS) + ['Unknown']:
        for k in (['convert/Unknown'] if v == 'Unknown' else ['convert/%s/hit' % v, 'convert/%s/miss' % v]):
            if k not in seen and not any(k in x['key'] for x in res.violations):
                res.bad(k + '/missing', 'CodeAddressConverter::find_address has no path for %s' % k)
    # key function of the searches: the id component
    for p, h in F.hir.items():
        if p.startswith(CONV + '::{closure'):
            try:
                cw = Evaluator(F, nop).run_fn(p, [sym('env'), sym('i')]) if False else None
            except EvalError:
                cw = None


def comparator_table(F, nop, closure_path):
    """evaluate a range comparator closure over all orderings of (start, end, address); returns {ordering: result}"""
    ev = Evaluator(F, nop)
    ws = ev.run_fn(closure_path, [sym('range')], ) if False else None
    return ws


def decide_cmp(w, start, end, a):
    """is this world's assumption set true for the concrete triple?"""
    import operator
    ops = {'Lt': operator.lt, 'Le': operator.le, 'Gt': operator.gt, 'Ge': operator.ge, 'Eq': operator.eq, 'Ne': operator.ne}

    def val(t):
        s = show(t)
        if s == 'address':
            return a
        if s.endswith('.0.start') or s.endswith('.start'):
            return start
        if s.endswith('.0.end') or s.endswith('.end'):
            return end
        raise KeyError(s)
    for k, v in w.assumptions:
        if isinstance(k, tuple) and k and k[0] == 'atom':
            t = k[1]
            neg = False
            while t[0] == 'un' and t[1] == 'Not':
                t, neg = t[2], not neg
            if t[0] != 'bin' or t[1] not in ops:
                raise KeyError(show(t))
            r = ops[t[1]](val(t[2]), val(t[3]))
            if neg:
                r = not r
            if r != v:
                return False
    return True


def generator(F, res, nop):
    ev = Evaluator(F, nop)
    ws = ev.run_fn(GEN, [sym('self'), sym('address'), sym('pref')])
    seen = set()
    pref_closure = {}
    for w in ws:
        if w.outcome != 'return':
            continue
        ss = searches(w)
        got = sh(w.value)
        pref = [v[2] for k, v in w.assumptions if k == sym('pref') and isinstance(v, tuple) and v[0] == 'ctor']
        atoms = [(sh(k[1]), v) for k, v in w.assumptions if isinstance(k, tuple) and k and k[0] == 'atom']
        if ss and ss[0][1] == 'Ok':
            key = 'classify/InstrInFunction'
            good = ss[0][0] == 'instrument_address_convert_table' and ss[0][2] == 'address' and len(ss) == 1 and \
                got == 'InstrInFunction{instr_id: instrument_address_convert_table[HIT(instrument_address_convert_table)].1}'
            want = 'an exact hit in the instruction table yields that entry\'s instruction'
        elif got.startswith('InstrEdge'):
            key = 'classify/InstrEdge'
            T = 'instrument_address_convert_table'
            E = '%s[MISS(%s)]' % (T, T)
            exists = ('(MISS(%s) Lt len(self.%s))' % (T, T), True) in atoms or ('(len(self.%s) Gt MISS(%s))' % (T, T), True) in atoms
            for k, v in w.assumptions:
                # `table.get(i)` known to be Some is the same knowledge as `i < table.len()`
                if isinstance(k, tuple) and k and k[0] == 'call' and k[1].endswith('::get') and isinstance(v, tuple) and v[0] == 'ctor' \
                        and v[2] == 'Some' and has_sub(norm(k), ('MISS', T)):
                    exists = True
            eqs = {'((%s.0 Sub 1) Eq address)' % E, '(address Eq (%s.0 Sub 1))' % E, '(%s.0 Eq (address Add 1))' % E,
                   '((address Add 1) Eq %s.0)' % E}
            one_below = any(a in eqs and v is True for a, v in atoms)
            good = got == 'InstrEdge{instr_id: %s.1}' % E and exists and one_below
            want = 'the entry after the miss, exactly one byte above the address, in range'
        else:
            # range search
            rs = [s for s in ss if s[0] == 'address_convert_table']
            # which comparator closure was used under which preference
            for k, v in w.assumptions:
                if is_bs(k) and 'address_convert_table' in show(k[2][0]) and pref:
                    c = k[2][1]
                    if isinstance(c, tuple) and c[0] == 'closure':
                        pref_closure.setdefault(pref[0], set()).add(c[1][0])
            T = 'address_convert_table'
            if rs and rs[0][1] == 'Ok':
                is_end = [v for a, v in atoms if a == '(address Eq %s[HIT(%s)].0.end)' % (T, T)]
                if is_end and is_end[0]:
                    key = 'classify/FunctionEdge'
                    good = got == 'FunctionEdge{id: %s[HIT(%s)].1}' % (T, T)
                    want = 'address == range.end of the hit -> FunctionEdge of that function'
                else:
                    key = 'classify/OffsetInFunction'
                    good = bool(is_end) and got == 'OffsetInFunction{id: %s[HIT(%s)].1, offset: (address Sub %s[HIT(%s)].0.start)}' % (T, T, T, T)
                    want = 'offset measured from the start of the hit range'
            else:
                key = 'classify/Unknown'
                good = got == 'Unknown{}' and bool(rs)
                want = 'Unknown only after both searches missed'
        seen.add(key)
        if good:
            res.ok(key, {'class': key.split('/')[-1], 'result': got[:100]})
        else:
            res.bad(key, 'address classification returns %s under %s; expected: %s' % (got[:150], [a for a in atoms][:3], want))
    for k in ('InstrInFunction', 'InstrEdge', 'FunctionEdge', 'OffsetInFunction', 'Unknown'):
        if 'classify/' + k not in seen:
            res.bad('classify/%s/missing' % k, 'CodeAddressGenerator::find_address never yields %s' % k)
    # comparators
    spec = {'InclusiveFunctionEnd': lambda s, e, a: 'Less' if e < a else ('Greater' if a <= s else 'Equal'),
            'ExclusiveFunctionEnd': lambda s, e, a: 'Less' if e <= a else ('Greater' if a < s else 'Equal')}
    allcl = set()
    for v in pref_closure.values():
        allcl |= v
    if not allcl:
        # the preference may be consulted inside the comparator instead of selecting one: take every closure handed to
        # the range search
        for w in ws:
            for k, v in w.assumptions:
                if is_bs(k) and 'address_convert_table' in show(k[2][0]) and isinstance(k[2][1], tuple) and k[2][1][0] == 'closure':
                    allcl.add(k[2][1][1][0])
    for pref, fn in spec.items():
        cl = pref_closure.get(pref) or allcl
        key = 'comparator/' + pref
        if len(cl) != 1:
            res.bad(key, 'AddressSearchPreference::%s does not select exactly one range comparator (%s)' % (pref, sorted(cl)))
            continue
        cpath = list(cl)[0]
        table = closure_worlds(F, nop, cpath, pref)
        if table is None:
            res.error('range comparator %s not analysable' % cpath)
            continue
        bad = None
        n = 0
        for s_, e_, a_ in itertools.product(range(0, 5), repeat=3):
            if not s_ < e_:
                continue
            hits = []
            for w in table:
                try:
                    if decide_cmp(w, s_, e_, a_):
                        hits.append(w)
                except KeyError as ke:
                    bad = 'uses something other than comparisons of address/start/end: %s' % ke
                    break
            if bad:
                break
            outs = set(sh(w.value) for w in hits)
            n += 1
            if outs != {fn(s_, e_, a_) + '{}'} and outs != {fn(s_, e_, a_)}:
                bad = 'for start=%d end=%d address=%d it answers %s, the %s search needs %s' % (s_, e_, a_, sorted(outs), pref, fn(s_, e_, a_))
                break
        if bad:
            res.bad(key, 'range comparator selected by %s: %s' % (pref, bad))
        else:
            res.ok(key, {'preference': pref, 'orderings_checked': n, 'semantics': 'start < a <= end' if pref.startswith('Incl') else 'start <= a < end'})


def closure_worlds(F, nop, cpath, pref=None):
    """worlds of a comparator closure applied to a symbolic range; the closure is created by running the enclosing
    function (so that its capture of `address` resolves) and then applied once more, outside, to `range`"""
    class Done(Exception):
        pass

    def thunk(st):
        try:
            st.call_path(GEN, [sym('self'), sym('address'), sym('pref')], None)
        except Exception as e:
            if e.__class__.__name__ in ('NeedSplit',):
                raise
            if e.__class__.__name__ not in ('ReturnEx', 'PanicEx', 'Pruned'):
                raise
        keys = [k for k in st.closures if k[0] == cpath]
        if not keys:
            return ('lit', 'closure-not-created', '')
        return st.call_closure(('closure', keys[0]), [sym('range')], None)
    try:
        ws = Evaluator(F, nop).run(thunk)
    except EvalError:
        return None
    out, seen = [], set()
    for w in ws:
        if w.outcome != 'return' or 'closure-not-created' in show(w.value):
            continue
        # worlds of the other preference do not describe this comparator
        other = [v[2] for k, v in w.assumptions if isinstance(v, tuple) and v and v[0] == 'ctor' and v[1].endswith('AddressSearchPreference')]
        if pref is not None and other and other[0] != pref:
            continue
        # keep only what the closure itself assumed: comparisons between address and the symbolic range
        asm = [(k, v) for k, v in w.assumptions if isinstance(k, tuple) and k and k[0] == 'atom' and 'range' in show(k[1])
               and 'binary_search' not in show(k[1])]
        sig = (tuple((show(k), v) for k, v in asm), show(w.value), pref)
        if sig in seen:
            continue
        seen.add(sig)
        w.assumptions = asm
        out.append(w)
    return out or None
