"""R-ARENA: identifiers are stable by construction.

 (a1) the tombstone set `dead` is only ever inserted into: no call anywhere in the crate
      removes from / clears / drains a place ending in `.dead`;
 (a3) every accessor of TombstoneArena that yields or counts items consults `dead`
      (get, get_mut, contains, iter, iter_mut (IterMut::next), Index, IndexMut, len, par_*);
 (a4) TombstoneArena::delete marks exactly its `id` argument and runs on_delete on that item;
 (a5) ArenaSet::remove clears the dedup entry *before* TombstoneArena::delete runs on_delete
      (which clobbers the key); ArenaSet::insert allocates only when the map misses and
      records the new id under the inserted value;
 (a6) every Module* collection's delete/get/get_mut delegates to its arena with its own id
      argument and nothing else."""
import re
from registry import RuleResult
from heval import Evaluator, Policy, EvalError, sym, show, norm_path, local_policy, subterms
from cfg import Cfg, callee_name, operand_place
from mirutil import calls_to, where

PER_CONFIG = True     # the rayon accessors exist only in the `parallel` configuration
TA = 'tombstone_arena::TombstoneArena::<T>::'
MUTATORS = ('remove', 'clear', 'retain', 'drain', 'take', 'extract_if', 'shrink_to', 'replace')


def places_of_args(body, t):
    """for each argument of call t: the place (rooted at a self field) it ultimately refers to"""
    out = []
    defs = {}
    for b in body['blocks']:
        for s in b['stmts']:
            if s.get('s') == 'Assign' and len(s['p']) == 1:
                r = s['r']
                if r['rv'] in ('Ref', 'RawPtr'):
                    defs[s['p'][0]] = r['p']
                elif r['rv'] in ('Use', 'Cast'):
                    pl = operand_place(r['a'])
                    if pl is not None:
                        defs[s['p'][0]] = pl
    for a in t.get('args', []):
        pl = operand_place(a)
        seen = 0
        while pl is not None and len(pl) >= 1 and pl[0] in defs and seen < 10 and all(x == '*' for x in pl[1:]):
            pl = defs[pl[0]]
            seen += 1
        out.append(pl)
    return out


def touches_field(pl, field):
    return pl is not None and any(x == '.' + field for x in pl[1:] if isinstance(x, str))


def bodies_with_closures(F, path):
    """MIR bodies of a fn and of the closures defined inside it"""
    out = []
    for p, b in F.mir.items():
        if p == path or p.startswith(path + '::{closure'):
            out.append(b)
    return out


def mentions(t, what):
    if t == what:
        return True
    if isinstance(t, tuple):
        return any(mentions(x, what) for x in t)
    if isinstance(t, list):
        return any(mentions(x, what) for x in t)
    return False


def dead_atoms(w):
    """[(id term, truth)] for every `self.dead.contains(id)` condition this world assumed"""
    out = []
    for k, v in w.assumptions:
        if isinstance(k, tuple) and k and k[0] == 'atom':
            t = k[1]
            if isinstance(t, tuple) and t[0] == 'call' and t[1].endswith('HashSet::contains') and show(t[2][0]).endswith('dead'):
                out.append((t[2][1], v))
    return out


def find_filter(t):
    if isinstance(t, tuple):
        if t and t[0] == 'call' and isinstance(t[1], str) and t[1].endswith('::filter') and len(t[2]) == 2:
            return t
        for x in t:
            r = find_filter(x)
            if r:
                return r
    return None


def par_filter(F, res, name, path):
    """rayon accessors: the parallel iterator over the inner arena is filtered by `!dead.contains(id)`"""
    nop = local_policy(F, path, events=[r'^std::', r'^id_arena::', r'^rayon::'])

    def thunk(st):
        v = st.call_path(path, [sym('self'), sym('consumer')][:2 if 'drive' in path else 1], None)
        f = find_filter(v)
        if f is None:
            return ('lit', 'nofilter', '')
        return ('tuple', (f[2][0], st.apply(f[2][1], [sym('ent')], None)))
    try:
        ws = Evaluator(F, nop).run(thunk)
    except EvalError as e:
        res.error('accessor %s not analysable: %s' % (name, e))
        return
    bad = None
    n = 0
    for w in ws:
        if w.outcome != 'return':
            continue
        n += 1
        if w.value[0] != 'tuple':
            bad = 'does not filter the inner parallel iterator'
            continue
        src, keep = w.value[1]
        if 'inner' not in show(src):
            bad = 'filters %s, not the inner arena' % show(src)[:60]
        da = dead_atoms(w)
        if dead_known_empty(w) and show(keep) == 'True':
            continue
        ident = ('field', sym('ent'), '0')
        if show(keep) not in ('True', 'False'):
            # the predicate's value is an undecided term: it must be the negated membership test itself
            kt = keep
            neg = False
            while isinstance(kt, tuple) and kt[0] == 'un' and kt[1] == 'Not':
                kt, neg = kt[2], not neg
            is_test = isinstance(kt, tuple) and kt[0] == 'call' and kt[1].endswith('HashSet::contains') and len(kt[2]) == 2 \
                and show(kt[2][0]).endswith('dead') and kt[2][1] == ident
            if not (is_test and neg):
                bad = 'keeps an entry when %s' % show(keep)[:80]
            continue
        if show(keep) == 'True' and (ident, False) not in da:
            bad = 'keeps an entry without `dead.contains(id)` being false'
        if show(keep) == 'False' and (ident, True) not in da:
            bad = 'drops a live entry'
    if n == 0:
        res.error('accessor %s: no returning world' % name)
    elif bad:
        res.bad('accessor/%s/liveness' % name, 'TombstoneArena %s %s' % (name, bad))
    else:
        res.ok('accessor/%s/liveness' % name, {'accessor': name, 'worlds': n, 'rule': 'parallel iterator filtered by !dead'})


def dead_known_empty(w):
    """this world knows that nothing has been deleted (`self.dead.is_empty()`): every entry is live"""
    for k, v in w.assumptions:
        if isinstance(k, tuple) and k and k[0] == 'atom':
            t = show(k[1])
            if v is True and re.match(r'^is_empty\((self\.)?dead\)$', t):
                return True
            if v is True and re.match(r'^\(len\((self\.)?dead\) Eq 0\)$', t):
                return True
    return False


def accessor_worlds(F, res, accessors):
    INNER = ('field', sym('self'), 'inner')
    for name, path in sorted(accessors.items()):
        # helpers written next to the accessors (is_dead, ...) are looked through
        nop = local_policy(F, path, events=[r'^std::', r'^id_arena::', r'^rayon::'], loop_cut=3)
        if name.startswith('par_'):
            par_filter(F, res, name, path)
            continue
        nargs = {'get': 2, 'get_mut': 2, 'contains': 2, 'index': 2, 'index_mut': 2}.get(name, 1)
        try:
            ws = Evaluator(F, nop).run_fn(path, [sym('self'), sym('id')][:nargs])
        except EvalError as e:
            res.error('accessor %s not analysable: %s' % (name, e))
            continue
        bad = None
        n = 0
        for w in ws:
            if w.outcome != 'return':
                continue
            n += 1
            da = dead_atoms(w)
            if dead_known_empty(w):
                continue
            if name in ('get', 'get_mut', 'index', 'index_mut'):
                if mentions(w.value, INNER) and (sym('id'), False) not in da:
                    bad = 'returns an item of the inner arena on a path where `dead.contains(id)` was not tested false'
            elif name == 'contains':
                if not (w.value == ('lit', False, 'bool') or show(w.value) == 'False'):
                    if (sym('id'), False) not in da:
                        bad = 'can answer true (%s) without `dead.contains(id)` being false' % show(w.value)[:60]
            elif name == 'len':
                if 'Sub' not in show(w.value) or 'len(self.dead)' not in show(w.value) or 'len(self.inner)' not in show(w.value):
                    bad = 'is not `inner.len() - dead.len()` (%s)' % show(w.value)[:80]
            elif name == 'iter':
                el = [t for t, v in da if v is False and 'elem' in show(t)]
                wv = w.value
                if isinstance(wv, tuple) and wv and wv[0] == 'ctor' and F.adt(wv[1]) and F.adt(wv[1]).get('local'):
                    # a named iterator struct: what it hands out is decided by its `next`
                    nx = [k for k in F.hir if re.match(r'^<%s(<.*?>)? as std::iter::Iterator>::next$' % re.escape(wv[1]), k)]
                    if nx:
                        accessor_worlds(F, res, {'iter.next': nx[0]})
                        continue
                if mentions(w.value, INNER) and not el:
                    bad = 'yields entries of the inner arena that were not tested against `dead`'
            elif name.endswith('.next'):
                v = w.value
                produced = [t for t in subterms(v) if isinstance(t, tuple) and t and t[0] == 'call' and t[1].endswith('Iterator::next')
                            and mentions(t, INNER)] if isinstance(v, tuple) else []
                if isinstance(v, tuple) and v and v[0] == 'ctor' and v[2] == 'Some' and produced:
                    # the entry is rebuilt from the inner iterator's item (`Some((id, item))`): that item must have been tested
                    tested = [t for t, tv in da if tv is False and any(mentions(t, x) for x in produced)]
                    if not tested:
                        bad = 'can return the entry produced by %s without testing it against `dead`' % show(produced[0])
                elif isinstance(v, tuple) and v[0] == 'call' and v[1].endswith('Iterator::next'):
                    asm = dict((show(k), x) for k, x in w.assumptions if not (isinstance(k, tuple) and k and k[0] == 'atom'))
                    st = asm.get(show(v))
                    is_none = st is not None and 'None' in show(st)
                    tested = [t for t, tv in da if tv is False and mentions(t, v)]
                    if not is_none and not tested:
                        bad = 'can return the entry produced by %s without testing it against `dead`' % show(v)
                elif isinstance(v, tuple) and v[0] == 'call' and v[1] in ('iter::find', 'std::iter::Iterator::find') and mentions(v, INNER):
                    # `inner.find(pred)`: the entry handed out satisfies pred; pred must be `!dead.contains(id)`
                    el = [t for t, tv in da if tv is False and 'elem' in show(t)]
                    verdict = show(v[2][1]) if len(v[2]) > 1 else '?'
                    if verdict == 'False':
                        pass        # the generic entry fails the predicate: it is skipped, nothing is handed out
                    elif verdict != 'True' or not el:
                        bad = 'searches the inner iterator with a predicate that does not test `dead`'
                elif mentions(v, INNER):
                    bad = 'returns %s, not a tested entry of the inner iterator' % show(v)[:80]
        if n == 0:
            res.error('accessor %s: no returning world' % name)
        elif bad:
            res.bad('accessor/%s/liveness' % name, 'TombstoneArena %s %s' % (name, bad))
        else:
            res.ok('accessor/%s/liveness' % name, {'accessor': name, 'worlds': n, 'rule': 'handed-out entry tested !dead'})


def run(ctx):
    F = ctx.F
    res = RuleResult('R-ARENA', 'tombstone arena: dead set append-only, accessors honour it, deletion isolated, dedup map consistent')
    res.floor = 20
    if not any(p.startswith('tombstone_arena::TombstoneArena') for p in F.mir):
        res.error('anchor lost: TombstoneArena')
        return res
    # (a1)
    offenders = []
    n_calls = 0
    for p, body in F.mir.items():
        for i, b in enumerate(body['blocks']):
            t = b['term']
            if t['t'] != 'Call':
                continue
            n = norm_path(callee_name(t) or '')
            last = n.split('::')[-1]
            if 'HashSet' in n or 'HashMap' in n:
                pls = places_of_args(body, t)
                if pls and touches_field(pls[0], 'dead'):
                    n_calls += 1
                    if last in MUTATORS or last in ('remove',):
                        offenders.append((p, i, last))
    if offenders:
        for p, i, last in offenders:
            res.bad('dead/%s/%s' % (last, p), '`dead` is modified by %s in %s: a deleted id could come back to life' % (last, p),
                    where(F.mir[p], i))
    else:
        res.ok('dead/append-only', {'calls_on_dead_analysed': n_calls})
    # (a3)
    accessors = {
        'get': TA + 'get', 'get_mut': TA + 'get_mut', 'contains': TA + 'contains', 'iter': TA + 'iter', 'len': TA + 'len',
        'index': '<tombstone_arena::TombstoneArena<T> as std::ops::Index<id_arena::Id<T>>>::index',
        'index_mut': '<tombstone_arena::TombstoneArena<T> as std::ops::IndexMut<id_arena::Id<T>>>::index_mut',
        'iter_mut.next': "<tombstone_arena::IterMut<'a, T> as std::iter::Iterator>::next",
    }
    if ctx.config == 'parallel':
        accessors['par_iter'] = TA + 'par_iter'
        accessors['par_iter_mut.drive'] = "<tombstone_arena::ParIterMut<'a, T> as rayon::iter::ParallelIterator>::drive_unindexed"
    for name, path in accessors.items():
        bodies = bodies_with_closures(F, path)
        if not bodies:
            res.bad('accessor/%s/missing' % name, 'TombstoneArena accessor %s not found (%s)' % (name, path))
            continue
        res.ok('accessor/' + name, {'accessor': name, 'found': True}, nontrivial=False)
    # (a3') the same accessors, decided on their worlds: whatever is handed out is known not to be dead
    accessor_worlds(F, res, accessors)
    # (a4) delete
    try:
        pol = Policy(effects=[r'HashSet::insert$', r'Tombstone::on_delete$', r'HashMap::(remove|insert|get)$',
                              r'TombstoneArena::<T>::(delete|alloc)$', r'TombstoneArena::(delete|alloc)$', r'id_arena::Arena::alloc$'],
                     inline=lambda p: not p.endswith('::contains'))
        ev = Evaluator(F, pol)
        ws = ev.run_fn(TA + 'delete', [sym('self'), sym('id')])
        good = False
        for w in ws:
            if w.outcome != 'return':
                continue
            ins = [e for e in w.trace if e['kind'] == 'call' and e['callee'].endswith('HashSet::insert')]
            od = [e for e in w.trace if e['kind'] == 'call' and e['callee'].endswith('on_delete')]
            if len(ins) == 1 and show(ins[0]['args'][0]) == 'self.dead' and ins[0]['args'][1] == sym('id') \
                    and len(od) == 1 and show(od[0]['args'][0]) == 'index(self.inner, id)':
                good = True
            else:
                good = False
                break
        if good:
            res.ok('delete/marks-own-id', {'delete': 'dead.insert(id); inner[id].on_delete()'})
        else:
            res.bad('delete/marks-own-id', 'TombstoneArena::delete must mark exactly its id argument dead and run on_delete on that item')
        # (a5) ArenaSet
        AS = 'arena_set::ArenaSet::<T>::'
        pol2 = local_policy(F, AS + 'insert', events=[r'HashMap::(remove|insert|get)$', r'VacantEntry::insert$', r'TombstoneArena::<T>::(delete|alloc)$',
                                                      r'TombstoneArena::(delete|alloc)$'])
        ws = Evaluator(F, pol2).run_fn(AS + 'remove', [sym('self'), sym('id')])
        good = len(ws) > 0
        for w in ws:
            tr = [e for e in w.trace if e['kind'] == 'call']
            names = [e['callee'].split('::')[-1] for e in tr]
            if names[:2] != ['remove', 'delete'] and not (names and 'remove' in names and 'delete' in names and names.index('remove') < names.index('delete')):
                good = False
                continue
            rm = tr[names.index('remove')]
            dl = tr[names.index('delete')]
            # the key is read from the live item of this id, before the delete
            if 'delete(' in show(rm['args'][1]) or dl['args'][1] != sym('id') or 'id' not in show(rm['args'][1]):
                good = False
        if good:
            res.ok('arena-set/remove-order', {'remove': 'already_in_arena.remove(&arena[id]) before arena.delete(id)'})
        else:
            res.bad('arena-set/remove-order', 'ArenaSet::remove must clear the dedup entry using the live item, before '
                    'TombstoneArena::delete runs on_delete (which resets the key): otherwise the stale entry keeps handing out a dead id')
        ws = Evaluator(F, pol2).run_fn(AS + 'insert', [sym('self'), sym('val')])
        hit_ok = miss_ok = False
        for w in ws:
            tr = [e for e in w.trace if e['kind'] == 'call']
            names = [e['callee'].split('::')[-1] for e in tr]
            # the lookup: `map.get(&val)` (Some / None) or `map.entry(val)` (Occupied / Vacant)
            hit = any(isinstance(v, tuple) and v and v[0] == 'ctor' and v[2] in ('Some', 'Occupied') for k, v in w.assumptions)
            if hit:
                hit_ok = 'alloc' not in names and 'insert' not in names and re.search(r'get\((entry\()?self\.already_in_arena', show(w.value)) is not None
            else:
                al = [e for e in tr if e['callee'].endswith('alloc')]
                ins = [e for e in tr if e['callee'].endswith('HashMap::insert') or e['callee'].endswith('VacantEntry::insert')]
                if len(al) == 1 and len(ins) == 1:
                    i = ins[0]
                    if i['callee'].endswith('HashMap::insert'):
                        key_ok, stored = show(i['args'][1]) == 'val', i['args'][2]
                    else:
                        key_ok, stored = show(i['args'][0]).startswith('entry(self.already_in_arena, val)'), i['args'][1]
                    miss_ok = key_ok and 'alloc(' in show(stored) and (show(w.value) == show(stored) or show(stored) in show(w.value))
                else:
                    miss_ok = False
        if hit_ok and miss_ok:
            res.ok('arena-set/insert-dedup', {'insert': 'existing id on hit; alloc + record on miss'})
        else:
            res.bad('arena-set/insert-dedup', 'ArenaSet::insert must return the existing id when the value is present and '
                    'allocate + record exactly once otherwise (hit ok: %s, miss ok: %s)' % (hit_ok, miss_ok))
    except (EvalError, KeyError) as e:
        res.error('arena functions not analysable: %s' % e)
    # (a7) removal by name deletes the item that carries that name, nothing else
    for wp, argn in (('module::exports::ModuleExports::remove', ['name']), ('module::imports::ModuleImports::remove', ['module', 'name'])):
        short = wp.split('::')[-2]
        if wp not in F.hir:
            continue
        try:
            ws7 = Evaluator(F, local_policy(F, wp, events=[r'::delete$'])).run_fn(wp, [sym('self')] + [sym(a) for a in argn])
        except EvalError as e:
            res.error('%s not analysable: %s' % (wp, e))
            continue
        bad7 = None
        n7 = 0
        for w in ws7:
            if w.outcome != 'return' or not (isinstance(w.value, tuple) and w.value and w.value[0] == 'ctor' and w.value[2] == 'Ok'):
                continue
            dels = [e for e in w.trace if e['kind'] == 'call' and e['callee'].endswith('::delete')]
            if len(dels) != 1 or dels[0]['args'][0] != sym('self'):
                bad7 = 'deletes %d items' % len(dels)
                continue
            a7 = dels[0]['args'][1]
            # id of the element found
            t = a7
            took_id = False
            while True:
                if t[0] == 'call' and t[1].endswith('::id') and len(t[2]) == 1 and not took_id:
                    t, took_id = t[2][0], True
                elif t[0] == 'field' and t[2] in ('id', '0') and not took_id:
                    t, took_id = t[1], True        # `.id` of the item / first component of the arena's (id, item) pair
                elif t[0] == 'ok':
                    t = t[1]
                else:
                    break
            if not (t[0] == 'call' and t[1].split('::')[-1] == 'find' and len(t[2]) == 2 and 'self.arena' in show(t[2][0])):
                bad7 = 'deletes %s, which is not the item found by walking this collection' % show(a7)[:80]
                continue
            pred = t[2][1]
            if show(pred) == 'False':
                continue            # the generic element does not match: it is skipped
            eqs = set()

            def eq_of(x, truth=True):
                if x[0] == 'bin' and x[1] == 'Eq' and truth:
                    l, r = show(x[2]), show(x[3])
                    for fld_side, arg_side in ((l, r), (r, l)):
                        m = re.match(r'^elem\(.*\)(\.1)?\.(\w+)$', fld_side)
                        if m and arg_side in argn:
                            eqs.add((m.group(2), arg_side))
                elif x[0] == 'bin' and x[1] == 'And' and truth:
                    eq_of(x[2]); eq_of(x[3])
            if show(pred) == 'True':
                for k, v in w.assumptions:
                    if isinstance(k, tuple) and k and k[0] == 'atom':
                        eq_of(k[1], v is True)
            else:
                eq_of(pred)
            if eqs != {(a, a) for a in argn}:
                bad7 = 'selects the item to delete by %s instead of by %s' % (sorted(eqs) or show(pred)[:80], argn)
                continue
            n7 += 1
        if bad7:
            res.bad('remove-by-name/' + short, '%s::remove %s: an item other than the named one can disappear' % (short, bad7))
        elif n7:
            res.ok('remove-by-name/' + short, {'remove': short, 'deletes': 'the item whose %s equal the arguments' % '/'.join(argn)})
        else:
            res.error('%s::remove: no successful world' % short)
    # (a6) wrappers
    wrappers = ['module::tables::ModuleTables', 'module::memories::ModuleMemories', 'module::globals::ModuleGlobals',
                'module::data::ModuleData', 'module::elements::ModuleElements', 'module::functions::ModuleFunctions',
                'module::exports::ModuleExports', 'module::imports::ModuleImports', 'module::types::ModuleTypes',
                'module::locals::ModuleLocals', 'module::custom::ModuleCustomSections']
    polw = Policy(effects=lambda p: not p.startswith('std::') or 'Index' in p, inline=lambda p: False)
    evw = Evaluator(F, polw)
    evw_for = lambda root: Evaluator(F, local_policy(F, root, public_events=True, events=[r'Index']))
    for wpath in wrappers:
        short = wpath.split('::')[-1]
        for meth in ('delete', 'get', 'get_mut'):
            p = wpath + '::' + meth
            if p not in F.hir:
                continue
            if short == 'ModuleCustomSections':
                continue    # typed ids, different shape
            try:
                ws = evw_for(p).run_fn(p, [sym('self'), sym('id')])
            except EvalError as e:
                res.error('%s not analysable: %s' % (p, e))
                continue
            good = True
            for w in ws:
                if meth == 'delete':
                    calls = [e for e in w.trace if e['kind'] == 'call' and (e['callee'].endswith('::delete') or e['callee'].endswith('::remove'))]
                    if len(calls) != 1 or show(calls[0]['args'][0]) != 'self.arena' or calls[0]['args'][1] != sym('id'):
                        good = False
                else:
                    v = show(w.value)
                    if not (v in ('index(self.arena, id)', 'index_mut(self.arena, id)') or v.startswith('get(self.arena, id') or v.startswith('get_mut(self.arena, id')):
                        # index through std::ops::Index effect
                        idx = [e for e in w.trace if e['kind'] == 'call' and 'Index' in e['callee']]
                        if not (len(idx) == 1 and show(idx[0]['args'][0]) == 'self.arena' and idx[0]['args'][1] == sym('id')):
                            good = False
            if good:
                res.ok('wrapper/%s/%s' % (short, meth), {'wrapper': short + '::' + meth, 'delegates': 'self.arena, own id'})
            else:
                res.bad('wrapper/%s/%s' % (short, meth), '%s::%s does not simply delegate to its arena with its own id' % (short, meth))
    a8(F, res)
    return res


def a8(F, res):
    """(a8) the interning arena's keys cannot go stale: `ArenaSet<T>` remembers, per value, the id it handed out, keyed by a
    clone of the value taken at insertion.  Lookup on re-insertion and un-registration on removal compare / hash the
    *current* value.  So no field that takes part in `T: Eq + Hash` may be writable once the value sits in the arena
    (public field, or assigned through `&mut T` anywhere outside construction) - otherwise a deleted id is handed out
    again, or two ids denote one value - and `hash` must not look at a field `eq` ignores."""
    elems = set()
    for a in F.adts.values():
        if not a.get('local'):
            continue
        for v in a.get('variants', []):
            for f in v.get('fields', []):
                m = re.search(r'arena_set::ArenaSet<([\w:]+)>', f['ty'])
                if m:
                    elems.add(m.group(1))
    if not elems:
        res.error('interned arenas: no ArenaSet<T> field found')
        return

    def fields_read(path):
        b = F.mir.get(path)
        if b is None:
            return None
        out = set()

        def walk(n):
            if isinstance(n, list):
                if n and isinstance(n[0], int) and n[0] in (1, 2) and len(n) >= 3 and n[1] == '*' and isinstance(n[2], str) and n[2].startswith('.'):
                    out.add(n[2][1:])
                for x in n:
                    walk(x)
            elif isinstance(n, dict):
                for x in n.values():
                    walk(x)
        for q in [path] + [k for k in F.mir if k.startswith(path + '::{closure')]:
            walk(F.mir[q]['blocks'])
        return out
    for T in sorted(elems):
        short = T.split('::')[-1]
        adt = F.adts.get(T)
        eqf = fields_read('<%s as std::cmp::PartialEq>::eq' % T)
        hf = fields_read('<%s as std::hash::Hash>::hash' % T)
        if adt is None or eqf is None or hf is None:
            # derived impls compare every field: every field is a key field
            if adt is None:
                res.error('interned type %s not found' % T)
                continue
            allf = {f['name'] for v in adt['variants'] for f in v['fields']}
            eqf = allf if eqf is None else eqf
            hf = allf if hf is None else hf
        if not hf <= eqf:
            res.bad('interned/%s/eq-hash-agree' % short, '%s::hash looks at %s, which eq (%s) ignores: equal values may hash differently and '
                    'the interning map misses them' % (short, sorted(hf - eqf), sorted(eqf)))
        else:
            res.ok('interned/%s/eq-hash-agree' % short, {'type': short, 'key_fields': sorted(eqf)})
        vis = {f['name']: f.get('vis', '') for v in adt['variants'] for f in v['fields']}
        writable = {}
        for f in sorted(eqf | hf):
            if vis.get(f) == 'Public':
                writable[f] = 'it is a public field'
        for p, body in F.mir.items():
            if re.search(r' as tombstone_arena::Tombstone>::on_delete$', p):
                continue     # runs on a value that has just been un-registered and is dead from then on
            for b in body['blocks']:
                for st in b['stmts']:
                    if st.get('s') != 'Assign':
                        continue
                    for pl, is_w in ((st.get('p') or [], True), (((st.get('r') or {}).get('p') or []) if (st.get('r') or {}).get('rv') == 'Ref'
                                                                and (st.get('r') or {}).get('mut') else [], True)):
                        if len(pl) >= 3 and isinstance(pl[0], int) and pl[1] == '*' and isinstance(pl[2], str) and pl[2][1:] in (eqf | hf):
                            lty = body['locals'][pl[0]]['ty'] if pl[0] < len(body['locals']) else ''
                            if re.match(r"&('\w+ )?mut %s$" % re.escape(T), lty):
                                writable.setdefault(pl[2][1:], 'it is written through `&mut %s` in %s' % (short, p.split('::')[-1]))
        if writable:
            f, why = sorted(writable.items())[0]
            res.bad('interned/%s/key-fields-frozen' % short, '%s.%s takes part in the equality/hash that keys the interning arena, but %s: after a '
                    'change the arena no longer finds (or un-registers) the value under its key - a deleted id is handed out again or '
                    'one value gets two ids' % (short, f, why))
        else:
            res.ok('interned/%s/key-fields-frozen' % short, {'type': short, 'key_fields': sorted(eqf | hf), 'writable_after_insertion': 0})
