"""R-BUILDER: the builder API produces exactly the tree it is asked for.

 (b1) InstrSeqBuilder::instr pushes (instr.into(), default location) onto the builder's OWN sequence;
      instr_at inserts it at the caller's `position`.
 (b2) for every instruction struct that is not marked #[walrus(skip_builder)] the generated
      methods `snake(X)` and `snake(X)_at` exist and consist of one call to instr / instr_at with
      X { every parameter used for the same-named field } (and `position` passed through).
 (b3) block / loop_ / if_else (and *_at): one fresh dangling sequence per body, the user closure
      runs on that sequence, and the Block / Loop / IfElse node names exactly those sequences
      (consequent = first closure's sequence, alternative = second's), appended via instr / instr_at.
 (b4) dangling_instr_seq allocates a new sequence of the requested type and returns a builder for it;
      FunctionBuilder::new's entry sequence has the function's result type.
Emission of the built tree is decided by R-CONTROL (stack discipline, depths), R-TABLE (encode half),
R-PUSHPAIR (local slots) and R-SORTED (no binary search over unsorted user vectors)."""
import re
from registry import RuleResult
from heval import Evaluator, Policy, EvalError, sym, show, cfield

ISB = "function_builder::InstrSeqBuilder::<'_>::"
SNAKE = lambda s: re.sub(r'(?<!^)(?=[A-Z])', '_', s).lower()


def skip_builder_variants():
    """variant names marked #[walrus(skip_builder)] in src/ir/mod.rs (attributes are not part of the HIR)"""
    import os
    src = open(os.path.join(os.environ.get('VERIF_REPO', '/repo'), 'src/ir/mod.rs')).read()
    i = src.index('pub enum Instr')
    body = src[i:]
    out = set()
    for m in re.finditer(r'#\[walrus\(([^\]]*)\)\]\s*(?:///[^\n]*\n\s*|#\[[^\]]*\]\s*)*(\w+)\s*\{', body):
        if 'skip_builder' in m.group(1):
            out.add(m.group(2))
    return out


def run(ctx):
    F = ctx.F
    res = RuleResult('R-BUILDER', 'builder methods append / insert exactly the instruction they name, on the sequence they belong to')
    res.floor = 90
    nop = Policy(effects=lambda p: not p.startswith('std::') or 'Vec' in p, inline=lambda p: False)
    ev = Evaluator(F, nop)
    base = {k: v for k, v in F.hir.items() if k.startswith('function_builder::InstrSeqBuilder')}
    if not base:
        res.error('anchor lost: InstrSeqBuilder')
        return res
    prefix = [k for k in base if k.endswith('::instr')][0][:-len('instr')]
    # generated methods live in an `impl InstrSeqBuilder` block of another module
    by_name = {}
    for k, fn in F.fns.items():
        if (fn.get('impl_self') or '').startswith('function_builder::InstrSeqBuilder') and k in F.hir:
            by_name.setdefault(k.split('::')[-1], k)

    def is_default_loc(t):
        return t[0] == 'tup' and len(t[1]) == 2 and t[1][1][0] == 'call' and t[1][1][1].startswith('std::default::Default::default')
    try:
        # (b1)
        pol1 = Policy(effects=[r'std::vec::Vec::(push|insert)$'], inline=lambda p: True)
        ws = Evaluator(F, pol1).run_fn(prefix + 'instr', [sym('self'), sym('i')])
        e = [x for x in ws[0].trace if x['kind'] == 'call']
        good = len(ws) == 1 and len(e) == 1 and e[0]['callee'].endswith('Vec::push') \
            and show(e[0]['args'][0]) in ('index(self.builder.arena, self.id).instrs', 'index_mut(self.builder.arena, self.id).instrs') \
            and e[0]['args'][1][1][0] == sym('i') and is_default_loc(e[0]['args'][1])
        (res.ok if good else res.bad)('instr', {'instr': 'push((instr.into(), InstrLocId::default())) onto arena[self.id].instrs'} if good else
                                      'InstrSeqBuilder::instr must push (instr, default location) onto its own sequence: %s'
                                      % [show(a)[:70] for x in e for a in x['args']])
        ws = Evaluator(F, pol1).run_fn(prefix + 'instr_at', [sym('self'), sym('position'), sym('i')])
        e = [x for x in ws[0].trace if x['kind'] == 'call']
        good = len(ws) == 1 and len(e) == 1 and e[0]['callee'].endswith('Vec::insert') \
            and show(e[0]['args'][0]).endswith('(self.builder.arena, self.id).instrs') and e[0]['args'][1] == sym('position') \
            and e[0]['args'][2][1][0] == sym('i') and is_default_loc(e[0]['args'][2])
        (res.ok if good else res.bad)('instr_at', {'instr_at': 'insert(position, (instr.into(), default))'} if good else
                                      'InstrSeqBuilder::instr_at must insert (instr, default location) at `position` of its own sequence: %s'
                                      % [show(a)[:70] for x in e for a in x['args']])
        # (b2)
        instr = F.adt('ir::Instr')
        skipped = skip_builder_variants()
        for var in instr['variants']:
            name = var['name']
            if name in skipped or name == 'Block':
                continue
            sty = var['fields'][0]['ty']
            st = F.adt(sty)
            fields = [f['name'] for f in st['variants'][0]['fields']]
            m = SNAKE(name)
            if m in ('return', 'const'):
                m += '_'
            for suffix, target in (('', 'instr'), ('_at', 'instr_at')):
                mn = (SNAKE(name) + suffix) if suffix else m
                p = by_name.get(mn, prefix + mn)
                key = 'method/' + mn
                if p not in F.hir:
                    res.bad(key + '/missing', 'builder method `%s` for %s does not exist' % (mn, name))
                    continue
                args = [sym('self')] + ([sym('position')] if suffix else []) + [sym(f) for f in fields]
                try:
                    ws = ev.run_fn(p, args)
                except EvalError as e:
                    res.error('%s not analysable: %s' % (p, e))
                    continue
                calls = [x for x in ws[0].trace if x['kind'] == 'call'] if len(ws) == 1 else []
                good = len(calls) == 1 and calls[0]['callee'].endswith('::' + target) and calls[0]['args'][0] == sym('self')
                if good:
                    a = calls[0]['args']
                    node = a[-1]
                    if suffix:
                        good = a[1] == sym('position')
                    good = good and node[0] == 'ctor' and node[2] == name and dict(node[3]) == {f: sym(f) for f in fields}
                if good:
                    res.ok(key, {'method': mn, 'appends': name, 'via': target})
                else:
                    res.bad(key, 'builder method `%s` must be exactly %s(%s%s { same-named fields }); it does %s'
                            % (mn, target, 'position, ' if suffix else '', name,
                               [(x['callee'].split('::')[-1], [show(y)[:60] for y in x['args'][1:]]) for x in calls]))
        # (b3)
        for meth, node, nseq in (('block', 'Block', 1), ('loop_', 'Loop', 1), ('if_else', 'IfElse', 2)):
            for suffix, target in (('', 'instr'), ('_at', 'instr_at')):
                mn = meth.rstrip('_') + suffix if (suffix and meth == 'loop_') else meth + suffix
                p = by_name.get(mn, prefix + mn)
                key = 'structured/' + mn
                if p not in F.hir:
                    res.bad(key + '/missing', 'builder method `%s` does not exist' % mn)
                    continue
                closures = [sym('body1'), sym('body2')][:nseq]
                args = [sym('self')] + ([sym('position')] if suffix else []) + [sym('ty')] + closures
                from heval import local_policy
                ws = Evaluator(F, local_policy(F, p, public_events=True)).run_fn(p, args)
                if len(ws) != 1:
                    res.bad(key, '`%s` is not a single straight path' % mn)
                    continue
                tr = [x for x in ws[0].trace if x['kind'] in ('call', 'indirect_call')]
                dang = [x for x in tr if x['callee'].endswith('dangling_instr_seq')]
                ind = [x for x in tr if x['kind'] == 'indirect_call']
                fin = [x for x in tr if x['callee'].endswith('::' + target)]
                good = len(dang) == nseq and len(ind) == nseq and len(fin) == 1
                if good:
                    seqs = []
                    for i in range(nseq):
                        d = ('call', dang[i]['callee'], dang[i]['args']) if i == 0 else None
                        # closure i runs on the i-th dangling builder
                        good = good and ind[i]['callee'] == 'body%d' % (i + 1) and 'dangling_instr_seq(self, ' in show(ind[i]['args'][0])
                        seqs.append(show(ind[i]['args'][0]) + '.id')
                    n = fin[0]['args'][-1]
                    if suffix:
                        good = good and fin[0]['args'][1] == sym('position')
                    good = good and n[0] == 'ctor' and n[2] == node
                    if good:
                        # the id of a builder: its `id` field or the public `id()` accessor
                        vals = [re.sub(r'^id\((.*)\)$', r'\1.id', show(v)) for f, v in n[3]]
                        names = [f for f, v in n[3]]
                        if nseq == 1:
                            good = vals == seqs
                        else:
                            d = dict(zip(names, vals))
                            good = d.get('consequent') == seqs[0] and d.get('alternative') == seqs[1] and seqs[0] != seqs[1]
                            # both sequences get the same type
                            good = good and dang[0]['args'][1] == dang[1]['args'][1]
                if good:
                    res.ok(key, {'method': mn, 'node': node, 'sequences': nseq, 'via': target})
                else:
                    res.bad(key, '`%s` must create %d fresh sequence(s), run the closure(s) on them in order and append %s naming exactly '
                            'those sequences via %s' % (mn, nseq, node, target))
        # (b4)
        p = [k for k in F.hir if k.endswith('FunctionBuilder::dangling_instr_seq')]
        pol4 = Policy(effects=[r'TombstoneArena::(alloc_with_id|alloc)$', r'id_arena::Arena::alloc$'],
                      stubs={'tombstone_arena::TombstoneArena::alloc_with_id': lambda st, a, n: _awi(st, a, n)})
        ws = Evaluator(F, pol4).run_fn(p[0], [sym('self'), sym('ty')])
        good = len(ws) == 1
        if good:
            v = ws[0].value
            al = [x for x in ws[0].trace if x['kind'] == 'call']
            good = v[0] == 'ctor' and show(cfield(v, 'id')) == 'NEWID' and cfield(v, 'builder') == sym('self') and len(al) == 1 \
                and 'ty: ty' in show(al[0]['args'][1]).replace('into(ty)', 'ty') and 'id: NEWID' in show(al[0]['args'][1])
        (res.ok if good else res.bad)('dangling_instr_seq', {'dangling_instr_seq': 'new InstrSeq(id, ty) in the arena; builder for that id'} if good
                                      else 'dangling_instr_seq must allocate a new sequence of the requested type and return a builder for it')
    except (EvalError, IndexError, KeyError) as e:
        res.error('not analysable: %r' % (e,))
    return res


def _awi(st, args, node):
    nid = sym('NEWID')
    v = st.apply(args[1], [nid], node)
    st.effect('call', 'tombstone_arena::TombstoneArena::alloc', (args[0], v), node)
    return nid
