"""R-NOCACHE: emission depends on the logical module only - no memoised state can go stale.

`emit_wasm` walks the module through shared references, so the only way an earlier emit (or an
earlier query such as `LocalFunction::size`) can influence a later one is a cell with interior
mutability stored somewhere in the data reachable from `Module`.

 (c1) enumerate every field of every local ADT reachable from `module::Module` through field types
      and report the ones whose type mentions an interior-mutable std type
      (Cell, RefCell, OnceCell, OnceLock, Lazy*, Mutex, RwLock, Atomic*, UnsafeCell);
 (c2) for each such cell `S.c`: every function body in the crate that mutably borrows or assigns
      another field of a value of type S (through `&mut S`) must also reset `c` on that same value
      (assign it, or call take/set/replace/swap/store/clear/get_mut on it).  A function that hands out
      `&mut` access to the summarised data without resetting the cell leaves the cache stale:
      the next emit then depends on the emit history, not on the module.

On the pinned tree (c1) finds no such field; (c2) is armed for any that appears.
"""
import re
from registry import RuleResult

IM_LAST = {'Cell', 'RefCell', 'OnceCell', 'OnceLock', 'LazyCell', 'LazyLock', 'Mutex', 'RwLock', 'UnsafeCell', 'Atomic',
           'AtomicBool', 'AtomicUsize', 'AtomicIsize', 'AtomicU8', 'AtomicU16', 'AtomicU32', 'AtomicU64', 'AtomicI8',
           'AtomicI16', 'AtomicI32', 'AtomicI64', 'AtomicPtr', 'SyncUnsafeCell', 'Once'}
RESETTERS = {'take', 'set', 'replace', 'swap', 'store', 'clear', 'get_mut', 'get_mut_or_init', 'into_inner'}
ROOT = 'module::Module'


def norm(p):
    return re.sub(r'^walrus::', '', p or '')


def tokens(ty):
    return [t for t in re.split(r'[^\w:]+', ty) if t and not t[0].isdigit()]


def reachable_fields(F):
    """[(adt path, variant, field name, ty)] of every field reachable from Module"""
    seen, todo, out = set(), [ROOT], []
    while todo:
        a = todo.pop()
        if a in seen:
            continue
        seen.add(a)
        adt = F.adts.get(a)
        if not adt or not adt.get('local'):
            continue
        for v in adt.get('variants', []):
            for f in v.get('fields', []):
                out.append((a, v['name'], f['name'], f['ty']))
                for t in tokens(f['ty']):
                    if t in F.adts and t not in seen:
                        todo.append(t)
    return out, seen


def base_ty(body, place):
    """type of the reference a field place is projected from; an owned local (a value under construction or
    consumed here) is not a way to reach a cell somebody else has already filled"""
    loc = place[0]
    ty = body['locals'][loc]['ty'] if isinstance(loc, int) and loc < len(body['locals']) else ''
    if not ty.startswith('&'):
        return ''
    ty = re.sub(r"^&('\w+ )?(mut )?", '', ty)
    return re.sub(r'<.*$', '', ty)


def run(ctx):
    F = ctx.F
    res = RuleResult('R-NOCACHE', 'no interior-mutable (memoised) state reachable from Module can go stale between emits')
    res.floor = 60
    if ROOT not in F.adts:
        res.error('anchor lost: ' + ROOT)
        return res
    fields, adts = reachable_fields(F)
    cells = []
    for a, v, f, ty in fields:
        hit = [t for t in tokens(ty) if t.split('::')[-1] in IM_LAST and (t.startswith('std::') or t.startswith('core::') or '::' not in t
                                                                         or t.startswith('once_cell::') or t.startswith('parking_lot::'))]
        if hit:
            cells.append((a, v, f, ty, hit[0]))
        else:
            res.ok('field/%s.%s' % (a, f), None, nontrivial=True)
    res.samples.append({'adts_reachable_from_Module': len(adts), 'fields_walked': len(fields), 'interior_mutable_fields': len(cells)})
    for a, v, f, ty, hit in cells:
        stale = []
        n_mut = 0
        for p, body in F.mir.items():
            mut_other, resets = set(), False
            for b in body['blocks']:
                for s in b['stmts']:
                    if s.get('s') != 'Assign':
                        continue
                    # assignment into a field of S
                    pl = s.get('p') or []
                    flds = [x for x in pl[1:] if isinstance(x, str) and x.startswith('.')]
                    if flds and a == base_ty(body, pl):
                        if flds[0] == '.' + f:
                            resets = True
                        else:
                            mut_other.add(flds[0])
                    r = s.get('r') or {}
                    if r.get('rv') == 'Ref' and r.get('mut'):
                        pl2 = r.get('p') or []
                        flds2 = [x for x in pl2[1:] if isinstance(x, str) and x.startswith('.')]
                        if flds2 and a == base_ty(body, pl2):
                            if flds2[0] == '.' + f:
                                pass   # a &mut to the cell itself: decided by the call it is passed to
                            else:
                                mut_other.add(flds2[0])
                t = b['term']
                if t['t'] == 'Call':
                    fn = (t['func'].get('k') or {}).get('resolved') or (t['func'].get('k') or {}).get('fn') or ''
                    last = fn.split('::')[-1]
                    if last in RESETTERS and any(('::' + nm + '::') in fn or ('::' + nm + '<') in fn for nm in IM_LAST):
                        resets = True
            constructs = any(s.get('s') == 'Assign' and (s.get('r') or {}).get('rv') == 'Aggregate'
                             and norm(a) == norm((s.get('r') or {}).get('adt', '')) for b in body['blocks'] for s in b['stmts'])
            if mut_other:
                n_mut += 1
                if not resets and not constructs:
                    stale.append((p, sorted(mut_other)))
        key = 'cache/%s.%s' % (a.split('::')[-1], f)
        if stale:
            res.bad(key + '/stale',
                    '%s.%s is a %s (interior-mutable, survives between emits) but %s give(s) mutable access to other fields of the same '
                    'value without resetting it: a later emit can depend on what was emitted or queried before'
                    % (a, f, hit, ', '.join('%s (%s)' % (p.split('::')[-1], ','.join(fl)) for p, fl in sorted(stale))),
                    detail={'functions': [p for p, _ in stale]})
        elif n_mut == 0:
            res.bad(key + '/unaccounted', '%s.%s is a %s; no function mutating %s was found to account for its invalidation' % (a, f, hit, a))
        else:
            res.ok(key, {'cell': a + '.' + f, 'kind': hit, 'mutating_functions_all_reset_it': n_mut})
    res.exhaustive = True
    return res
