"""R-CONTROL: structured control (block / loop / if / else / end), block
signatures and branch labels survive decode -> IR -> encode.

All obligations are stated over *effects* of the evaluated handlers (control
stack push/pop, block allocation, IR allocation, encoder calls), not over
syntax:

 (bt)   for block, loop, if and every form of block type (empty, each value
        type, type index with 0/1/2+ params x 0/1/2+ results) the block type
        that Emit::start_instr_seq emits denotes the same signature as the
        input block type; the IR node and the pushed control frame have the
        kind of the operator;
 (stk)  net control-stack effect per operator: block/loop/if +1, else pop+push,
        end -1; the frame pushed by `else` (and the synthetic empty else made by
        `end`) carries the popped frame's types unchanged; IfElse is allocated
        with (consequent, alternative) from the if-state at the `if` location;
 (emit) Emit::visit_instr pushes the kind named by the IR node and emits nothing
        for it; start_instr_seq pushes the sequence id and emits the opener of
        the pending kind; end_instr_seq pops both stacks and emits `else` for an
        If kind (re-pushing Else) and `end` otherwise;
 (br)   br / br_if / br_table: the IR label is the block of the frame
        `relative_depth` below the top of the parse-time control stack, and the
        emitted depth is the position of that block below the top of the
        emit-time block stack; br and br_table (not br_if) mark the rest of the
        sequence unreachable.
"""
from registry import RuleResult
from heval import (Evaluator, Policy, EvalError, sym, lit, ctor, show, cfield, NONE, some)
from r_table import Canon, cast_lossless, strip_tys, assumption_text, OP, INSTR, EMIT, AI

EFFECTS = [r'ValidationContext::(alloc_instr|alloc_instr_in_control|alloc_instr_in_block|unreachable)$',
           r'std::vec::Vec::(push|pop)$', r'wasm_encoder::Function::instruction$']


def mk_policy(np, nr):
    def sp(st, args, node):
        st.effect('stub', 'types.params', (args[1],), node)
        return ('list', tuple(sym('p%d' % i) for i in range(np)))

    def sr(st, args, node):
        st.effect('stub', 'types.results', (args[1],), node)
        return ('list', tuple(sym('r%d' % i) for i in range(nr)))

    def add_block(st, args, node):
        seq = st.apply(args[1], [sym('newseq')], node)
        st.effect('add_block', 'add_block', (seq,), node)
        return sym('newseq')
    return Policy(
        effects=EFFECTS,
        inline=lambda p: not (p.startswith('parse::IndicesToIds') or p.startswith('emit::IdsToIndices')
                              or p in ('module::types::ModuleTypes::find', 'module::types::ModuleTypes::add')),
        stubs={'module::types::ModuleTypes::params': sp, 'module::types::ModuleTypes::results': sr,
               'module::functions::local_function::LocalFunction::add_block': add_block})


def eff(w, kind=None, callee_end=None):
    out = []
    for e in w.trace:
        if kind and e['kind'] != kind:
            continue
        if callee_end and not e['callee'].endswith(callee_end):
            continue
        out.append(e)
    return out


def pushes(w, stack):
    return [e for e in eff(w, 'call', 'Vec::push') if show(e['args'][0]) == stack]


def pops(w, stack):
    return [e for e in eff(w, 'call', 'Vec::pop') if show(e['args'][0]) == stack]


def iseq_sig(ty):
    """signature denoted by an ir::InstrSeqType term: (params, results) as tuples of terms, or None"""
    if ty[0] != 'ctor' or not ty[1].endswith('InstrSeqType'):
        return None
    if ty[2] == 'Simple':
        o = cfield(ty, '0')
        if o[0] != 'ctor':
            return None
        if o[2] == 'None':
            return ((), ())
        return ((), (cfield(o, '0'),))
    if ty[2] == 'MultiValue':
        t = cfield(ty, '0')
        while t[0] == 'ok':
            t = t[1]
        if t[0] == 'call' and t[1] == 'module::types::ModuleTypes::find' and len(t[2]) == 3:
            P, R = t[2][1], t[2][2]
            if P[0] == 'list' and R[0] == 'list':
                return (P[1], R[1])
        return None
    return None


def blockty_world(w):
    """which input block type this world assumes: ('Empty',) | ('Type', valtype-variant-chain) | ('FuncType',)"""
    kind = None
    chain = []
    for k, v in w.assumptions:
        if isinstance(v, tuple) and v and v[0] == 'ctor':
            if v[1] == 'wasmparser::BlockType':
                kind = v[2]
            elif v[1] == 'wasmparser::ValType':
                chain.append(v[2])
        if isinstance(k, tuple) and k and k[0] == 'atom' and v is True:
            t = k[1]
            if t[0] == 'bin' and t[1] == 'Eq' and t[3][0] == 'call' and t[3][1].startswith('wasmparser::RefType::'):
                chain.append(t[3][1].split('::')[-1])
    return kind, chain


def valtype_name(t):
    """walrus ty::ValType / wasm_encoder::ValType term -> canonical name"""
    if t[0] != 'ctor':
        return None
    if t[2] == 'Ref':
        r = cfield(t, '0')
        if r[0] == 'ctor':
            return 'REF:' + r[2].upper().replace('REF', '')
        if r[0] == 'call':
            return 'REF:' + r[1].split('::')[-1].upper().replace('REF', '')
        return None
    return t[2].upper()


def run(ctx):
    F = ctx.F
    res = RuleResult('R-CONTROL', 'structured control, block signatures and branch labels survive decode -> IR -> encode')
    res.floor = 60
    if AI not in F.hir:
        res.error('anchor lost: append_instruction')
        return res
    emits = {}
    for m in ('visit_instr', 'start_instr_seq', 'end_instr_seq'):
        c = [p for p in F.hir if p.endswith('::' + m) and 'emit::Emit' in p]
        if len(c) != 1:
            res.error('anchor lost: Emit::' + m)
            return res
        emits[m] = c[0]
    bt = [p for p in F.hir if p.endswith('emit::Emit<\'_>::block_type') or p.endswith('Emit::block_type')]
    import flowlib
    _, emit_self, _unk = flowlib.emit_self(F)
    try:
        check_block_types(F, res, emits, emit_self)
        check_else_end(F, res)
        check_emit_stack(F, res, emits, emit_self)
        check_branches(F, res, emits, emit_self)
    except EvalError as e:
        res.error('not analysable: %s' % e)
    res.exhaustive = True
    return res


# ------------------------------------------------------------------ (bt)
def check_block_types(F, res, emits, emit_self):
    seen_worlds = set()
    for opname, irname, kind in (('Block', 'Block', 'Block'), ('Loop', 'Loop', 'Loop'), ('If', None, 'If')):
        var = F.variant(OP, opname)
        inst = ctor(OP, opname, [(f['name'], sym(f['name'], f['ty'])) for f in var['fields']])
        for np in (0, 1, 2):
            for nr in (0, 1, 2):
                pol = mk_policy(np, nr)
                ev = Evaluator(F, pol)
                worlds = ev.run_fn(AI, [sym('ctx'), inst, sym('loc')])
                for w in worlds:
                    if find_is_none(w):
                        continue   # the validator guarantees that the indexed type exists
                    bk, chain = blockty_world(w)
                    if bk is None:
                        res.error('%s: world without a block type assumption' % opname)
                        continue
                    if bk != 'FuncType' and (np, nr) != (0, 0):
                        continue   # already covered by the first run
                    tag = '%s/%s' % (opname, bk if bk != 'FuncType' else 'FuncType(%d->%d)' % (np, nr))
                    if bk == 'Type':
                        tag += '(' + '.'.join(chain) + ')'
                    if w.outcome == 'panic':
                        # value types the validator excludes under the enabled features (exotic ref types)
                        falses = [show(k[1]) for k, v in w.assumptions if isinstance(k, tuple) and k[0] == 'atom' and v is False]
                        if bk == 'Type' and any('EXTERNREF' in f for f in falses) and any('FUNCREF' in f for f in falses):
                            res.ok(tag + '/rejected-by-validator', nontrivial=False)
                            continue
                        if bk == 'FuncType' and any(e['callee'] == '?' for e in eff(w, 'try_fail')):
                            pass
                        res.bad(tag + '/panic', '%s with block type %s panics in append_instruction [%s]'
                                % (opname, bk, assumption_text(w.assumptions)))
                        continue
                    ab = eff(w, 'add_block')
                    ps = pushes(w, 'ctx.controls')
                    if len(ab) != 1 or len(ps) != 1 or pops(w, 'ctx.controls'):
                        res.bad(tag + '/stack', '%s must allocate one block and push exactly one control frame '
                                '(allocated %d, pushed %d, popped %d)' % (opname, len(ab), len(ps), len(pops(w, 'ctx.controls'))))
                        continue
                    seq = ab[0]['args'][0]
                    frame = ps[0]['args'][1]
                    ty = cfield(seq, 'ty')
                    # the input signature
                    if bk == 'Empty':
                        want = ((), ())
                    elif bk == 'Type':
                        want = ((), ('valtype:' + ':'.join(chain),))
                    else:
                        want = (tuple(sym('p%d' % i) for i in range(np)), tuple(sym('r%d' % i) for i in range(nr)))
                        # the type index must be resolved in the type index space
                        for st in eff(w, 'stub'):
                            c = Canon(res)
                            a = c.canon(st['args'][0])
                            if a != ('id', 'type', sym('blockty.FuncType.0')) and strip_tys(a) != ('id', 'type', ('field', ('sym', 'blockty'), 'FuncType.0')):
                                res.bad(tag + '/type-space', 'block type index is not resolved through the type index space: %s'
                                        % show(st['args'][0]))
                    got = iseq_sig(ty)
                    if got is None:
                        res.bad(tag + '/ir-type', 'cannot read the signature of the IR block type %s' % show(ty))
                        continue
                    if bk != 'FuncType' and not (ty[0] == 'ctor' and ty[2] == 'Simple'):
                        res.bad(tag + '/form', '%s: a block type written in the compact MVP form (%s) becomes %s in the IR and '
                                'would be re-emitted as a type index (multi-value encoding)' % (opname, bk, show(ty)))
                        continue
                    if not same_sig(got, want):
                        res.bad(tag + '/ir-signature',
                                '%s with block type %s: the IR sequence type %s denotes %s, the input denotes %s'
                                % (opname, tag.split('/')[1], show(ty), sig_text(got), sig_text(want)))
                        continue
                    # the frame
                    fk = cfield(frame, 'kind')
                    if fk[0] != 'ctor' or fk[2] != kind or cfield(frame, 'block') != sym('newseq') \
                            or cfield(seq, 'id') != sym('newseq'):
                        res.bad(tag + '/frame', '%s pushes a control frame of kind %s for block %s'
                                % (opname, show(fk), show(cfield(frame, 'block'))))
                        continue
                    if cfield(frame, 'unreachable') != lit(False, 'bool'):
                        res.bad(tag + '/frame-unreachable', 'a fresh control frame must start reachable')
                    # the IR node
                    allocs = eff(w, 'call', 'alloc_instr_in_control') + eff(w, 'call', 'alloc_instr')
                    if irname:
                        okk = (len(allocs) == 1 and allocs[0]['callee'].endswith('alloc_instr_in_control')
                               and allocs[0]['args'][1] == lit(1, 'usize')
                               and allocs[0]['args'][2] == ctor('ir::' + irname, irname, [('seq', sym('newseq'))])
                               and allocs[0]['args'][3] == sym('loc'))
                        if not okk:
                            res.bad(tag + '/ir-node', '%s must allocate %s{seq: new block} in the parent frame at its own location: %s'
                                    % (opname, irname, [show(a) for e in allocs for a in e['args'][1:]]))
                            continue
                    else:
                        st = pushes(w, 'ctx.if_else')
                        want_state = ctor('module::functions::local_function::context::IfElseState', 'IfElseState',
                                          [('start', sym('loc')), ('consequent', sym('newseq')), ('alternative', NONE)])
                        if allocs or len(st) != 1 or dict(st[0]['args'][1][3]) != dict(want_state[3]):
                            res.bad(tag + '/if-state', 'if must record (start=loc, consequent=new block, alternative=None) and '
                                    'allocate nothing yet')
                            continue
                    # encode: start_instr_seq with the pending kind
                    enc = Evaluator(F, Policy(effects=EFFECTS, inline=lambda p: not p.startswith('emit::IdsToIndices')))
                    ews = enc.run_fn(emits['start_instr_seq'], [emit_self, seq])
                    found = False
                    for w2 in ews:
                        k2 = [v for k, v in w2.assumptions if isinstance(v, tuple) and v[0] == 'ctor' and v[1] == 'ir::BlockKind']
                        if not k2 or k2[0][2] != kind:
                            continue
                        found = True
                        ins = eff(w2, 'call', '::instruction')
                        if w2.outcome != 'return' or len(ins) != 1:
                            res.bad(tag + '/emit-opener', 'start_instr_seq emits %d instructions for a pending %s' % (len(ins), kind))
                            continue
                        out = ins[0]['args'][1]
                        if out[0] != 'ctor' or out[2] != opname:
                            res.bad(tag + '/emit-opcode', '%s is re-emitted as %s' % (opname, show(out)))
                            continue
                        ebt = cfield(out, '0')
                        gsig = enc_sig(ebt, ty, res)
                        if gsig is None or not same_sig(gsig, want, enc=dict(w2.assumptions)):
                            res.bad(tag + '/emit-signature', '%s: emitted block type %s denotes %s, the input denotes %s'
                                    % (opname, show(ebt), sig_text(gsig), sig_text(want)))
                            continue
                        res.ok(tag, {'operator': opname, 'blockty': tag.split('/')[1], 'ir_type': show(ty), 'emitted': show(out)})
                    if not found:
                        res.bad(tag + '/emit-kind', 'start_instr_seq has no case for a pending %s' % kind)


def same_sig(got, want, enc=False):
    gp, gr = got
    wp, wr = want
    if len(gp) != len(wp) or len(gr) != len(wr):
        return False
    for g, w in list(zip(gp, wp)) + list(zip(gr, wr)):
        if isinstance(w, str) and w.startswith('valtype:'):
            chain = w.split(':')[1:]
            name = valtype_name(g)
            wantname = chain[0].upper() if chain[0] != 'Ref' else 'REF:' + (chain[1] if len(chain) > 1 else '?').upper().replace('REF', '')
            if name != wantname:
                return False
        elif strip_tys(g) != strip_tys(w):
            # the encode world may have refined a symbolic value type into a concrete variant:
            # then the emitted type must be the same-named wasm_encoder variant
            if isinstance(enc, dict) and w in enc and valtype_name(enc[w]) is not None \
                    and valtype_name(enc[w]) == valtype_name(g):
                continue
            r = None
            if isinstance(enc, dict) and w in enc and enc[w][0] == 'ctor' and enc[w][2] == 'Ref':
                # Ref(x) with x refined separately
                inner = cfield(enc[w], '0')
                if inner in enc:
                    r = 'REF:' + enc[inner][2].upper().replace('REF', '')
            if r is not None and r == valtype_name(g):
                continue
            return False
    return True


def sig_text(s):
    if s is None:
        return '?'
    f = lambda xs: '[' + ', '.join(x if isinstance(x, str) else show(x) for x in xs) + ']'
    return f(s[0]) + ' -> ' + f(s[1])


def enc_sig(ebt, irty, res):
    """signature denoted by a wasm_encoder::BlockType term, given the IR type it was made from"""
    if ebt[0] != 'ctor' or not ebt[1].endswith('BlockType'):
        return None
    if ebt[2] == 'Empty':
        return ((), ())
    if ebt[2] == 'Result':
        return ((), (cfield(ebt, '0'),))
    if ebt[2] == 'FunctionType':
        c = Canon(res)
        t = c.canon(cfield(ebt, '0'))
        # must be the type-space index of exactly the TypeId held by the IR sequence type
        if irty[2] != 'MultiValue':
            return None
        tid = c.canon(cfield(irty, '0'))
        if t == ('idx', 'type', tid):
            return iseq_sig(irty)
        return None
    return None


# ------------------------------------------------------------------ (stk) else / end
CTX_CONTROLS = ('field', sym('ctx'), 'controls')
POPPED = ('ok', ('call', 'std::vec::Vec::pop', (CTX_CONTROLS,)))
CTX_IFELSE = ('field', sym('ctx'), 'if_else')
IFSTATE = ('ok', ('call', 'std::vec::Vec::pop', (CTX_IFELSE,)))


def find_is_none(w):
    """worlds that assume ModuleTypes::find(..) == None: the validator guarantees the block's type exists"""
    for k, v in w.assumptions:
        if v == NONE and isinstance(k, tuple) and k and k[0] == 'call' and k[1].endswith('ModuleTypes::find'):
            return True
    return False


def check_else_end(F, res):
    for opname in ('Else', 'End'):
        n_ok = 0
        for np in (0, 1, 2):
            for nr in (0, 1, 2):
                P = ('list', tuple(sym('p%d' % i) for i in range(np)))
                R = ('list', tuple(sym('r%d' % i) for i in range(nr)))
                pre = [(('field', POPPED, 'start_types'), P), (('field', POPPED, 'end_types'), R)]
                ev = Evaluator(F, mk_policy(np, nr))
                inst = ctor(OP, opname, [])
                worlds = ev.run_fn(AI, [sym('ctx'), inst, sym('loc')], assumptions=pre)
                for w in worlds:
                    n_ok += check_else_end_world(res, opname, w, np, nr, P, R)
        if n_ok == 0:
            res.error('no analysable world for ' + opname)


def stack_underflow(w):
    """worlds that assume a pop of the control / if-else stack found nothing: every `else` / `end` the validator accepted
    has its frame, so these worlds cannot occur (the code answers them with an error or a panic, either is fine)"""
    for k, v in w.assumptions:
        if v == NONE and isinstance(k, tuple) and k and k[0] == 'call' and k[1].endswith('Vec::pop') \
                and ('ctx.controls' in show(k[2][0]) or 'ctx.if_else' in show(k[2][0])):
            return True
    return False


def check_else_end_world(res, opname, w, np, nr, P, R):
    if find_is_none(w) or stack_underflow(w):
        return 0
    kinds = [v[2] for k, v in w.assumptions if isinstance(v, tuple) and v[0] == 'ctor' and v[1] == 'ir::BlockKind']
    kind = kinds[0] if kinds else None
    empty = any(v == NONE and isinstance(k, tuple) and 'last(ctx.controls)' in show(k) for k, v in w.assumptions)
    tag = '%s/frame=%s' % (opname, 'none' if empty else kind)
    alt = None
    for k, v in w.assumptions:
        if isinstance(v, tuple) and v and v[0] == 'ctor' and v[1].endswith('Option') and 'alternative' in show(k):
            alt = v[2]
        if isinstance(k, tuple) and k[0] == 'atom' and 'alternative' in show(k[1]):
            alt = 'Some' if v else 'None'
    if alt:
        tag += '/alt=' + alt
    sigtag = '(%d->%d)' % (np, nr)
    if empty:
        if (np, nr) != (0, 0):
            return 0
        if eff(w, 'add_block') or eff(w, 'call', 'alloc_instr'):
            res.bad(tag + '/effects', '%s on an empty control stack still builds IR' % opname)
        else:
            res.ok(tag, nontrivial=False)
        return 0
    pp = pops(w, 'ctx.controls')
    ps = pushes(w, 'ctx.controls')
    allocs = eff(w, 'call', 'alloc_instr')
    stores = [e for e in w.trace if e['kind'] == 'store']
    popped_block = ('field', POPPED, 'block')

    def else_frame_ok(fr, seq):
        if fr[0] != 'ctor' or cfield(fr, 'start_types') != P or cfield(fr, 'end_types') != R:
            return 'the Else frame must carry the if-frame\'s (params, results) unchanged'
        if cfield(fr, 'kind')[2] != 'Else' or cfield(fr, 'block') != sym('newseq'):
            return 'the pushed frame must be an Else frame for the new block'
        got = iseq_sig(cfield(seq, 'ty'))
        if got is None or not same_sig(got, (P[1], R[1])):
            return 'the else block\'s sequence type %s denotes %s, the if denotes %s' % (
                show(cfield(seq, 'ty')), sig_text(got), sig_text((P[1], R[1])))
        return None

    def end_store_ok():
        es = [s for s in stores if s['callee'].endswith('.end')]
        return len(es) >= 1 and show(popped_block) in show(es[0]['args'][0]) and es[0]['args'][1] == sym('loc')

    if opname == 'Else':
        if kind != 'If':
            if (np, nr) != (0, 0):
                return 0
            if w.outcome != 'panic' or allocs:
                res.bad(tag, '`else` closing a %s frame must be rejected' % kind)
            else:
                res.ok(tag, nontrivial=False)
            return 0
        if alt == 'Some':
            if w.outcome != 'panic':
                res.bad(tag, 'a second `else` for the same `if` must be rejected')
            else:
                res.ok(tag + sigtag, nontrivial=False)
            return 0
        if w.outcome != 'return':
            res.bad(tag + '/panic', '`else` after `if` panics [%s]' % assumption_text(w.assumptions))
            return 0
        ab = eff(w, 'add_block')
        if len(pp) != 1 or len(ps) != 1 or allocs or len(ab) != 1:
            res.bad(tag + '/stack', '`else` must pop the if-frame, allocate one block and push one Else frame')
            return 0
        why = else_frame_ok(ps[0]['args'][1], ab[0]['args'][0])
        if why:
            res.bad(tag + '/frame' + sigtag, '`else`: ' + why)
            return 0
        if not end_store_ok():
            res.bad(tag + '/end-loc', '`else` must record its location as the end of the consequent block')
            return 0
        alt_store = [s for s in stores if s['callee'].endswith('.alternative')]
        if len(alt_store) != 1 or alt_store[0]['args'][1] != some(sym('newseq')) or 'ctx.if_else' not in show(alt_store[0]['args'][0]):
            res.bad(tag + '/alt', '`else` must register the new block as the alternative of the innermost if')
            return 0
        res.ok(tag + sigtag, {'operator': 'Else', 'signature': sigtag,
                              'effects': [e['callee'].split('::')[-1] for e in w.trace if e['kind'] != 'try']})
        return 1
    # End
    if w.outcome != 'return':
        res.bad(tag + '/panic', '`end` panics [%s]' % assumption_text(w.assumptions))
        return 0
    if not end_store_ok():
        res.bad(tag + '/end-loc', '`end` must record its location as the end of the popped block')
        return 0
    net = len(ps) - len(pp)
    if net != -1:
        res.bad(tag + '/net', '`end` must shrink the control stack by one (net %+d)' % net)
        return 0
    if kind in ('If', 'Else'):
        ips = pops(w, 'ctx.if_else')
        if len(ips) != 1 or len(allocs) != 1 or not allocs[0]['callee'].endswith('alloc_instr'):
            res.bad(tag + '/ifelse', '`end` of an if/else must pop the if-state and allocate exactly one IfElse')
            return 0
        ir = allocs[0]['args'][1]
        loc = allocs[0]['args'][2]
        if ir[0] != 'ctor' or ir[2] != 'IfElse' or cfield(ir, 'consequent') != ('field', IFSTATE, 'consequent') \
                or loc != ('field', IFSTATE, 'start'):
            res.bad(tag + '/ifelse-fields', 'IfElse must take its consequent and location from the if-state: %s at %s'
                    % (show(ir), show(loc)))
            return 0
        alte = cfield(ir, 'alternative')
        ab = eff(w, 'add_block')
        if alt == 'Some':
            good = alte == ('ok', ('field', IFSTATE, 'alternative')) and not ab
            why = 'IfElse.alternative must be the else block registered in the if-state'
        else:
            good = alte == sym('newseq') and len(ab) == 1 and len(ps) == 1 and len(pp) == 2
            why = 'an if without else needs a fresh empty Else block'
            if good:
                why = else_frame_ok(ps[0]['args'][1], ab[0]['args'][0])
                good = why is None
        if not good:
            res.bad(tag + '/ifelse-alt' + sigtag, '`end`: %s (%s)' % (why, show(ir)))
            return 0
        last_pop = max(i for i, e in enumerate(w.trace) if e['kind'] == 'call' and e['callee'].endswith('Vec::pop')
                       and show(e['args'][0]) == 'ctx.controls')
        alloc_i = [i for i, e in enumerate(w.trace) if e is allocs[0]][0]
        if alloc_i < last_pop:
            res.bad(tag + '/ifelse-order', 'IfElse must be allocated after the if/else frame was popped (into the parent)')
            return 0
    else:
        if allocs or eff(w, 'add_block'):
            res.bad(tag + '/extra', '`end` of a %s frame must not build IR' % kind)
            return 0
    res.ok(tag + sigtag, {'operator': 'End', 'frame': kind, 'signature': sigtag,
                          'effects': [e['callee'].split('::')[-1] for e in w.trace if e['kind'] in ('call', 'add_block')]})
    return 1


# ------------------------------------------------------------------ (emit)
def check_emit_stack(F, res, emits, emit_self):
    enc = Evaluator(F, Policy(effects=EFFECTS, inline=lambda p: not p.startswith('emit::IdsToIndices')))
    # visit_instr on the three block-like IR nodes
    for irname, kind in (('Block', 'Block'), ('Loop', 'Loop'), ('IfElse', 'If')):
        fields = [('seq', sym('s'))] if irname != 'IfElse' else [('consequent', sym('c')), ('alternative', sym('a'))]
        instr = ctor('ir::Instr', irname, [('0', ctor('ir::' + irname, irname, fields))])
        for w in enc.run_fn(emits['visit_instr'], [emit_self, instr, sym('loc')]):
            ps = pushes(w, 'block_kinds')
            ins = eff(w, 'call', '::instruction')
            if w.outcome == 'return' and len(ps) == 1 and ps[0]['args'][1][2] == kind and not ins and not pushes(w, 'blocks'):
                res.ok('emit/visit/' + irname, {'ir': irname, 'pushes_kind': kind})
            else:
                res.bad('emit/visit/' + irname, 'Emit::visit_instr(%s) must push kind %s and emit nothing: pushed %s, emitted %d'
                        % (irname, kind, [show(p['args'][1]) for p in ps], len(ins)))
    # start_instr_seq: pushes the sequence id; FunctionEntry/Else emit nothing
    seq = ctor('ir::InstrSeq', 'InstrSeq', [('id', sym('sid')), ('ty', sym('sty')), ('instrs', sym('instrs')), ('end', sym('send'))])
    for w in enc.run_fn(emits['start_instr_seq'], [emit_self, seq]):
        k2 = [v for k, v in w.assumptions if isinstance(v, tuple) and v[0] == 'ctor' and v[1] == 'ir::BlockKind']
        if not k2:
            continue
        kind = k2[0][2]
        ps = pushes(w, 'blocks')
        ins = eff(w, 'call', '::instruction')
        if len(ps) != 1 or ps[0]['args'][1] != sym('sid') or pushes(w, 'block_kinds') or pops(w, 'blocks'):
            res.bad('emit/start/' + kind, 'start_instr_seq must push exactly the sequence id on the block stack')
            continue
        want = {'Block': 'Block', 'Loop': 'Loop', 'If': 'If'}.get(kind)
        if want is None:
            if ins:
                res.bad('emit/start/' + kind, 'start_instr_seq must not emit an opener for %s' % kind)
            else:
                res.ok('emit/start/' + kind, {'kind': kind, 'emits': None})
        else:
            if len(ins) == 1 and ins[0]['args'][1][2] == want:
                res.ok('emit/start/' + kind, {'kind': kind, 'emits': want})
            else:
                res.bad('emit/start/' + kind, 'start_instr_seq must emit `%s` for a pending %s' % (want.lower(), kind))
    # end_instr_seq
    seen = set()
    for w in enc.run_fn(emits['end_instr_seq'], [emit_self, seq]):
        k2 = [v for k, v in w.assumptions if isinstance(v, tuple) and v[0] == 'ctor' and v[1] == 'ir::BlockKind']
        if w.outcome != 'return':
            # popped_kind == None: unwrap panic, excluded by pairing
            continue
        if not k2:
            continue
        kind = k2[0][2]
        pb, pk = pops(w, 'blocks'), pops(w, 'block_kinds')
        ins = eff(w, 'call', '::instruction')
        rep = pushes(w, 'block_kinds')
        if len(pb) != 1 or len(pk) != 1 or pushes(w, 'blocks') or len(ins) != 1:
            res.bad('emit/end/' + kind, 'end_instr_seq must pop one block, one kind and emit one instruction')
            continue
        if kind == 'If':
            good = ins[0]['args'][1][2] == 'Else' and len(rep) == 1 and rep[0]['args'][1][2] == 'Else'
        else:
            good = ins[0]['args'][1][2] == 'End' and not rep
        if good:
            res.ok('emit/end/' + kind, {'kind': kind, 'emits': ins[0]['args'][1][2]})
        else:
            res.bad('emit/end/' + kind, 'end_instr_seq for kind %s emits %s and re-pushes %s'
                    % (kind, show(ins[0]['args'][1]), [show(p['args'][1]) for p in rep]))
        seen.add(kind)
    for kind in ('Block', 'Loop', 'If', 'Else', 'FunctionEntry'):
        if kind not in seen:
            res.bad('emit/end/' + kind + '/missing', 'end_instr_seq has no analysable case for kind ' + kind)


# ------------------------------------------------------------------ (br)
def nth_from_top(t, stack):
    """t == stack[len(stack) - n - 1]  ->  n (term)"""
    while t[0] == 'ok':
        t = t[1]
    # `stack.iter().rev().nth(n)`: the n-th frame from the top, the same element
    if t[0] == 'call' and t[1].split('::')[-1] == 'nth' and len(t[2]) == 2:
        sq = t[2][0]
        if sq[0] == 'seq' and show(sq[1]) == 'rev(%s)' % stack and sq[2] == ('elem', sq[1]):
            return t[2][1]
        return None
    if t[0] != 'call' or t[1] != 'index' or show(t[2][0]) != stack:
        return None
    i = t[2][1]
    if i[0] == 'bin' and i[1] == 'Sub' and i[3] == lit(1, 'usize'):
        j = i[2]
        if j[0] == 'bin' and j[1] == 'Sub' and show(j[2]) == 'len(%s)' % stack:
            return j[3]
    return None


def depth_of(t, stack):
    """t == position of X from the top of stack, as u32 -> X"""
    if t[0] == 'cast' and t[2] == 'usize' and t[3] == 'u32':
        t = t[1]
    else:
        return None
    while t[0] == 'ok':
        t = t[1]
    # `len - 1 - rposition(pred)`: the last match counted from the end = the first match of the reversed walk
    if t[0] == 'bin' and t[1] == 'Sub' and t[2] == ('bin', 'Sub', ('call', t[2][2][1] if t[2][0] == 'bin' and t[2][2][0] == 'call' else '', t[2][2][2] if t[2][0] == 'bin' and t[2][2][0] == 'call' else ()), lit(1, 'usize')) \
            and show(t[2][2]) == 'len(%s)' % stack:
        r = t[3]
        while r[0] == 'ok':
            r = r[1]
        if r[0] == 'call' and r[1].split('::')[-1] == 'rposition' and len(r[2]) == 2:
            s, pred = r[2]
            if s[0] == 'seq' and show(s[1]) == stack and s[2] == ('elem', s[1]) and pred[0] == 'bin' and pred[1] == 'Eq':
                if pred[2] == s[2]:
                    return pred[3]
                if pred[3] == s[2]:
                    return pred[2]
        return None
    if t[0] != 'call' or t[1] != 'iter::position':
        return None
    s, pred = t[2]
    if s[0] != 'seq' or show(s[1]) != 'rev(%s)' % stack or s[2] != ('elem', s[1]):
        return None
    if pred[0] == 'bin' and pred[1] == 'Eq':
        if pred[2] == s[2]:
            return pred[3]
        if pred[3] == s[2]:
            return pred[2]
    return None


def lossless_of(t, name):
    """t is sym `name` possibly under lossless casts"""
    while t[0] == 'ok':
        t = t[1]
    if t[0] == 'cast':
        if not cast_lossless(t[2], t[3]):
            return False
        return lossless_of(t[1], name)
    return show(t) == name


def check_branches(F, res, emits, emit_self):
    ev = Evaluator(F, mk_policy(0, 0))
    enc = Evaluator(F, Policy(effects=EFFECTS, inline=lambda p: not p.startswith('emit::IdsToIndices')))
    for opname, diverges in (('Br', True), ('BrIf', False)):
        inst = ctor(OP, opname, [('relative_depth', sym('relative_depth', 'u32'))])
        good_world = False
        for w in ev.run_fn(AI, [sym('ctx'), inst, sym('loc')]):
            if w.outcome != 'return':
                # control(n) out of range -> Err -> unwrap: excluded by the validator
                continue
            allocs = eff(w, 'call', 'alloc_instr')
            unr = eff(w, 'call', '::unreachable')
            if len(allocs) != 1:
                res.bad(opname + '/alloc', '%s allocates %d IR instructions' % (opname, len(allocs)))
                continue
            ir = allocs[0]['args'][1]
            blk = cfield(ir, 'block') if ir[0] == 'ctor' and ir[2] == opname else None
            n = None
            if blk is not None and blk[0] == 'field' and blk[2] == 'block':
                n = nth_from_top(blk[1], 'ctx.controls')
            if n is None or not lossless_of(n, 'relative_depth'):
                res.bad(opname + '/label', '%s: the IR label must be the block of the frame `relative_depth` below the top of the '
                        'control stack; got %s' % (opname, show(ir)))
                continue
            if bool(unr) != diverges:
                res.bad(opname + '/unreachable', '%s %s mark the rest of the sequence unreachable'
                        % (opname, 'must' if diverges else 'must not'))
                continue
            if unr and w.trace.index(unr[0]) < w.trace.index(allocs[0]):
                res.bad(opname + '/unreachable-order', '%s marks the frame unreachable before allocating itself' % opname)
                continue
            good_world = True
            res.ok(opname + '/decode', {'operator': opname, 'ir': show(ir)})
        if not good_world:
            res.bad(opname + '/decode-missing', 'no successful decode world for ' + opname)
        instr = ctor('ir::Instr', opname, [('0', ctor('ir::' + opname, opname, [('block', sym('B'))]))])
        enc_worlds = enc.run_fn(emits['visit_instr'], [emit_self, instr, sym('loc')])
        if not any(w2.outcome == 'return' for w2 in enc_worlds):
            res.bad(opname + '/encode', '%s has no path that encodes it' % opname)
        for w2 in enc_worlds:
            ins = eff(w2, 'call', '::instruction')
            if w2.outcome == 'panic' and not ins:
                continue      # a label that is not on the block stack: documented panic ("bad transformation pass")
            if w2.outcome != 'return' or len(ins) != 1:
                res.bad(opname + '/encode', '%s is encoded as %d instructions' % (opname, len(ins)))
                continue
            out = ins[0]['args'][1]
            x = depth_of(cfield(out, '0'), 'blocks') if out[0] == 'ctor' and out[2] == opname else None
            if x != sym('B'):
                res.bad(opname + '/encode-depth', '%s: the emitted depth must be the position of the label below the top of the '
                        'emit-time block stack; got %s' % (opname, show(out)))
            else:
                res.ok(opname + '/encode', {'ir': opname, 'instruction': show(out)})
    # br_table
    inst = ctor(OP, 'BrTable', [('targets', sym('targets'))])
    good_world = False
    for w in ev.run_fn(AI, [sym('ctx'), inst, sym('loc')]):
        if w.outcome != 'return':
            continue
        allocs = eff(w, 'call', 'alloc_instr')
        unr = eff(w, 'call', '::unreachable')
        if len(allocs) != 1 or not unr:
            res.bad('BrTable/alloc', 'br_table must allocate one IR instruction and mark the rest unreachable')
            continue
        ir = allocs[0]['args'][1]
        d = cfield(ir, 'default')
        b = cfield(ir, 'blocks')
        dn = nth_from_top(d[1], 'ctx.controls') if d[0] == 'field' and d[2] == 'block' else None
        okd = dn is not None and strip_cast_show(dn) == 'default(targets)'
        okb = False
        if b[0] == 'seq' and show(b[1]) == 'targets(targets)':
            e = b[2]
            en = nth_from_top(e[1], 'ctx.controls') if e[0] == 'field' and e[2] == 'block' else None
            okb = en is not None and strip_cast_show(en) == 'elem(targets(targets))' and not fl_reorders(w, b)
        if not (okd and okb):
            res.bad('BrTable/labels', 'br_table: every label (and the default) must be the block of the frame that many levels '
                    'below the top of the control stack, in table order; got %s' % show(ir))
            continue
        good_world = True
        res.ok('BrTable/decode', {'operator': 'BrTable', 'ir': show(ir)})
    if not good_world:
        res.bad('BrTable/decode-missing', 'no successful decode world for BrTable')
    instr = ctor('ir::Instr', 'BrTable', [('0', ctor('ir::BrTable', 'BrTable', [('blocks', sym('BS')), ('default', sym('D'))]))])
    enc_worlds = enc.run_fn(emits['visit_instr'], [emit_self, instr, sym('loc')])
    if not any(w2.outcome == 'return' for w2 in enc_worlds):
        res.bad('BrTable/encode', 'br_table has no path that encodes it')
    for w2 in enc_worlds:
        ins = eff(w2, 'call', '::instruction')
        if w2.outcome == 'panic' and not ins:
            continue
        if w2.outcome != 'return' or len(ins) != 1:
            res.bad('BrTable/encode', 'br_table is encoded as %d instructions' % len(ins))
            continue
        out = ins[0]['args'][1]
        t0, t1 = cfield(out, '0'), cfield(out, '1')
        good = out[2] == 'BrTable' and depth_of(t1, 'blocks') == sym('D') and t0[0] == 'seq' and t0[1] == sym('BS') \
            and depth_of(t0[2], 'blocks') == ('elem', sym('BS')) and not fl_reorders(w2, t0)
        if good:
            res.ok('BrTable/encode', {'ir': 'BrTable', 'instruction': show(out)})
        else:
            res.bad('BrTable/encode-depth', 'br_table: emitted targets must be the depths of the labels in order, then the default; got %s'
                    % show(out))


def fl_reorders(w, coll):
    from flowlib import reorders
    return reorders(w, coll)


def strip_cast_show(t):
    while t[0] in ('ok', 'cast'):
        if t[0] == 'cast' and not cast_lossless(t[2], t[3]):
            return 'lossy:' + show(t)
        t = t[1]
    return show(t)
