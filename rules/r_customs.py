"""R-CUSTOMS: unknown custom sections are captured raw, emitted once each in arena
order, and nothing on the GC path can touch them.

 (c1) Module::parse, CustomSection payload: in the world where the name is neither `producers`
      nor `name` nor starts with `.debug`, exactly one RawCustomSection is added to
      `customs`, with name = the payload's name and data = the payload's bytes, both
      unmodified (only to_string / to_vec in between);
 (c2) RawCustomSection::name / ::data return those two fields unmodified;
 (c3) Module::emit_wasm: every custom section whose name does not start with `.debug` reaches
      exactly one wasm_module.section(CustomSection { name: section.name(), data: section.data(..) })
      per iteration; no other condition (payload size, name, flags) can suppress or duplicate it,
      and the loop walks ModuleCustomSections::iter_mut(), which preserves arena (insertion) order;
 (c4) no function reachable from passes::gc::run takes or mutates ModuleCustomSections
      (GC only *reads* them through add_gc_roots)."""
import re
from registry import RuleResult
from heval import subterms, local_policy, Evaluator, Policy, EvalError, sym, show, cfield, norm_path
from cfg import Cfg, callee_name

MP = 'module::Module::parse'
EW = 'module::Module::emit_wasm'
NOPOL = Policy(effects=lambda p: not p.startswith('std::') and not p.startswith('log::') and not p.startswith('anyhow::'),
               inline=lambda p: False)


def atoms(w):
    return [(show(k[1]), v) for k, v in w.assumptions if isinstance(k, tuple) and k[0] == 'atom']


def run(ctx):
    F = ctx.F
    res = RuleResult('R-CUSTOMS', 'unknown custom sections: raw capture, one emission each in order, untouched by GC')
    res.floor = 6
    try:
        c1(F, res)
        c2(F, res)
        c3(F, res)
        c4(F, res)
        c5(F, res)
    except EvalError as e:
        res.error('not analysable: %s' % e)
    return res


def c1(F, res):
    ws = Evaluator(F, local_policy(F, MP, public_events=True)).run_fn(MP, [sym('wasm'), sym('config')])
    seen = False
    for w in ws:
        if not any(isinstance(v, tuple) and v and v[0] == 'ctor' and v[1] == 'wasmparser::Payload' and v[2] == 'CustomSection'
                   for k, v in w.assumptions):
            continue
        at = atoms(w)
        is_prod = [v for t, v in at if "'producers'" in t]
        is_name = [v for t, v in at if "'name'" in t]
        is_dbg = [v for t, v in at if 'starts_with(' in t and "'.debug'" in t]
        adds = [e for e in w.trace if e['kind'] == 'call' and e['callee'].endswith('ModuleCustomSections::add')]
        generic = (is_prod == [False] and is_name == [False] and is_dbg == [False])
        if generic:
            seen = True
            if len(adds) != 1:
                res.bad('parse/raw-capture', 'an unknown custom section is added to `customs` %d times' % len(adds))
                continue
            sec = adds[0]['args'][1]
            n, d = cfield(sec, 'name'), cfield(sec, 'data')
            payload = None
            for k, v in w.assumptions:
                if isinstance(v, tuple) and v and v[0] == 'ctor' and v[1] == 'wasmparser::Payload':
                    payload = cfield(v, '0')
            ps = show(payload)
            good = sec[0] == 'ctor' and sec[2] == 'RawCustomSection' and show(n) == 'name(%s)' % ps and show(d) == 'data(%s)' % ps
            if good:
                res.ok('parse/raw-capture', {'captured': 'RawCustomSection{name: s.name(), data: s.data()}', 'world': at[:3]})
            else:
                res.bad('parse/raw-capture', 'an unknown custom section is captured as %s instead of its unmodified name and bytes' % show(sec)[:160])
            # must not be able to fail the parse
            if not (w.outcome == 'return'):
                res.bad('parse/raw-capture/outcome', 'capturing an unknown custom section ends in %s' % w.outcome)
        else:
            if adds and is_dbg == [True]:
                res.bad('parse/debug-in-customs', 'a .debug* section is stored among the generic custom sections')
    if not seen:
        res.bad('parse/raw-capture/missing', 'Module::parse has no path that keeps an unknown custom section')


def c2(F, res):
    ev = Evaluator(F, Policy())
    sec = ('ctor', 'module::custom::RawCustomSection', 'RawCustomSection', (('name', sym('NAME')), ('data', sym('DATA'))))
    for meth, want, args in (('name', 'NAME', [sec]), ('data', 'DATA', [sec, sym('ids')])):
        p = '<module::custom::RawCustomSection as module::custom::CustomSection>::' + meth
        if p not in F.hir:
            res.bad('raw/%s/missing' % meth, 'RawCustomSection::%s not found' % meth)
            continue
        ws = ev.run_fn(p, args)
        good = len(ws) == 1 and ws[0].outcome == 'return' and show(ws[0].value) in (want, 'as_slice(%s)' % want, 'into(as_slice(%s))' % want)
        if good:
            res.ok('raw/' + meth, {'RawCustomSection::' + meth: show(ws[0].value)})
        else:
            res.bad('raw/' + meth, 'RawCustomSection::%s does not return the stored %s unmodified: %s'
                    % (meth, meth, [show(w.value) for w in ws][:2]))


def c5(F, res):
    """remove_raw(name) / delete_typed::<T>() take exactly one section out - the one they return - and leave every other slot alone"""
    for meth, args in (('remove_raw', ['self', 'name']), ('delete_typed', ['self'])):
        p = 'module::custom::ModuleCustomSections::' + meth
        if p not in F.hir:
            if meth == 'remove_raw':
                res.error('anchor lost: ModuleCustomSections::remove_raw')
            continue
        try:
            ws = Evaluator(F, local_policy(F, p, events=[r'Option::take$', r'TombstoneArena::delete$', r'mem::take$', r'mem::replace$'])).run_fn(p, [sym(a) for a in args])
        except EvalError as e:
            res.error('%s not analysable: %s' % (meth, e))
            continue
        one_slot(F, res, meth, ws)


def type_tested(w, dels):
    """the slot deleted is the one a search found with the type test as its predicate (so the later downcast of what
    was taken out cannot fail; the evaluator does not know that and also explores the failing branch)"""
    for e in dels:
        t = e['args'][1]
        hit = [x for x in subterms(t) if isinstance(x, tuple) and x and x[0] == 'call' and x[1].split('::')[-1] in ('find', 'position', 'find_map')
               and len(x[2]) == 2 and re.search(r'(^|[( ])is\(walrus_as_any\(elem\(', show(x[2][1]))]
        if not hit:
            # a hand-written search loop: the world assumes the type test true for the very entry whose id is deleted
            ok2 = False
            for k, v in w.assumptions:
                if isinstance(k, tuple) and k and k[0] == 'atom' and v is True:
                    m = re.search(r'(^|[( ])is\(walrus_as_any\((elem\(.*\))\.1\)\)', show(k[1]))
                    if m and m.group(2) in show(t):
                        ok2 = True
            if not ok2:
                return False
    return bool(dels)


def one_slot(F, res, meth, ws):
    bad = None
    n = 0
    for w in ws:
        if w.outcome not in ('return', 'pruned'):
            continue
        takes = [e for e in w.trace if e['kind'] == 'call' and e['callee'].split('::')[-1] in ('take', 'replace')]
        dels = [e for e in w.trace if e['kind'] == 'call' and e['callee'].endswith('::delete')]
        inloop = [e for e in takes + dels if e['loops']]
        if inloop:
            bad = 'empties or deletes slots inside its search loop (every match, not only the one it returns)'
            continue
        if w.outcome != 'return' or (isinstance(w.value, tuple) and w.value[0] == 'ctor' and w.value[2] == 'None'):
            if (takes or dels) and not (meth == 'delete_typed' and type_tested(w, dels)):
                bad = 'removes something on a path that returns nothing'
            continue
        if len(takes) != 1 or len(dels) != 1:
            bad = 'takes %d slot(s) and deletes %d for one returned section' % (len(takes), len(dels))
            continue
        slot = takes[0]['args'][0]
        sid = dels[0]['args'][1]
        while slot[0] == 'ok':
            slot = slot[1]

        def found_key(t):
            # the id produced by the search, whatever the state of its predicate in this world
            while isinstance(t, tuple) and t and t[0] == 'ok':
                t = t[1]
            if isinstance(t, tuple) and t and t[0] == 'call' and t[1].split('::')[-1] in ('find', 'next', 'find_map', 'position') and t[2]:
                return ('search', show(t[2][0])[:120])
            if isinstance(t, tuple) and t and t[0] == 'field':
                return ('field', found_key(t[1]), t[2])
            return t
        same = slot[0] == 'call' and slot[1].split('::')[-1] in ('index', 'index_mut', 'get_mut', 'get') and len(slot[2]) == 2 \
            and (slot[2][1] == sid or found_key(slot[2][1]) == found_key(sid))
        if not same:
            bad = 'empties %s but deletes %s' % (show(slot)[:60], show(sid)[:60])
            continue
        if meth == 'delete_typed' and not type_tested(w, dels):
            bad = 'deletes a slot that was not selected by the type test `is::<T>()` (%s)' % show(sid)[:80]
            continue
        n += 1
    if bad:
        res.bad(meth + '/one-slot', 'ModuleCustomSections::' + meth + ' ' + bad + ': other custom sections would silently disappear')
    elif n:
        res.ok(meth + '/one-slot', {meth: 'one take + one delete, same slot, outside the search'})
    else:
        res.error('remove_raw: no successful world')


def c3(F, res):
    ws = Evaluator(F, local_policy(F, EW, public_events=True)).run_fn(EW, [sym('self')])
    n_emit = n_skip = 0
    bad = None
    for w in ws:
        at = atoms(w)
        dbg = [v for t, v in at if t.startswith('starts_with(') and "'.debug'" in t]
        inloop = [e for e in w.trace if e['kind'] == 'call' and e['loops']]
        secs = [e for e in inloop if e['callee'].endswith('wasm_encoder::Module::section')]
        if not dbg:
            continue
        if dbg == [True]:
            n_skip += 1
            if secs:
                bad = 'a .debug* custom section is serialised by the custom-section loop'
            continue
        # a generic section
        others = [(t, v) for t, v in at if not t.startswith('starts_with(') and not t.startswith('self.config.')
                  and 'loop' in ' '.join(show(l) for e in inloop for l in e['loops']) and ('elem(' in t and 'customs' in t)]
        if len(secs) != 1:
            extra = [t for t, v in at if 'customs' in t and not t.startswith('starts_with(')]
            bad = 'a custom section is serialised %d times when %s' % (len(secs), extra[:2] or at[-2:])
            continue
        cs = secs[0]['args'][1]
        n, d = cfield(cs, 'name'), cfield(cs, 'data')
        elem = None
        m = re.match(r'^(?:into\()?name\((.*?)\)\)?$', show(n))
        good = cs[0] == 'ctor' and cs[2] == 'CustomSection' and m is not None and show(d).startswith('data(%s, ' % m.group(1)) \
            and 'iter_mut(' in m.group(1) and 'customs' in m.group(1)
        if not good:
            bad = 'a custom section is serialised as %s instead of (its name(), its data(indices))' % show(cs)[:140]
            continue
        n_emit += 1
    if bad:
        res.bad('emit/each-once', 'emit_wasm: ' + bad)
    elif n_emit and n_skip:
        res.ok('emit/each-once', {'generic_worlds': n_emit, 'debug_worlds': n_skip,
                                  'rule': 'exactly one section(name(), data()) per non-.debug custom section, unconditionally'})
    else:
        res.bad('emit/each-once/missing', 'emit_wasm has no analysable custom-section loop')
    # arena order: iter_mut does not sort or reverse
    p = 'module::custom::ModuleCustomSections::iter_mut'
    body = F.mir.get(p)
    if body is None:
        res.bad('emit/order/missing', 'ModuleCustomSections::iter_mut not found')
    else:
        names = []
        for q, b in F.mir.items():
            if q == p or q.startswith(p + '::{closure'):
                for blk in b['blocks']:
                    t = blk['term']
                    if t['t'] == 'Call':
                        names.append(norm_path(callee_name(t) or ''))
        badn = [n for n in names if re.search(r'::(sort\w*|rev|reverse|dedup\w*|swap\w*)$', n)]
        base = [n for n in names if n.endswith('TombstoneArena::iter_mut') or n.endswith('TombstoneArena::<T>::iter_mut')]
        if base and not badn:
            res.ok('emit/order', {'iter_mut': 'arena iteration (creation order), no sort / reverse'})
        else:
            res.bad('emit/order', 'ModuleCustomSections::iter_mut does not walk the arena in creation order (%s)' % (badn or names[:4]))


def c4(F, res):
    insts = F.insts_of('passes::gc::run')
    if not insts:
        res.error('anchor lost: gc::run instance')
        return
    defs = F.reach_defs(insts)
    offenders = []
    for d in defs:
        m = F.mir.get(d)
        if not m:
            continue
        for i in range(1, m['arg_count'] + 1):
            ty = m['locals'][i]['ty']
            if 'ModuleCustomSections' in ty and ty.lstrip().startswith('&mut'):
                offenders.append(d)
        if re.search(r'ModuleCustomSections::(add|delete|remove_raw|delete_typed|get_mut|get_typed_mut|iter_mut)', d):
            offenders.append(d)
    if offenders:
        res.bad('gc/untouched', 'the GC pass can reach code that mutates the custom sections: %s' % sorted(set(offenders))[:3])
    else:
        res.ok('gc/untouched', {'reachable_from_gc': len(defs), 'mutators_of_customs': 0})
