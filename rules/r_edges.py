"""R-EDGES / R-ROOTS: the GC closure (passes::used::Used::new) follows every
id-typed field of every entity it keeps, and its roots are the documented ones.

 * the tracked kinds are read from the fields of `Used`;
 * for every tracked entity type the id-carrying positions (struct fields, enum
   payloads, Vec/set elements, Option payloads, const-expr operands) are
   enumerated from the type definitions;
 * each worklist loop of Used::new (`while let Some(x) = stack.<kind>.pop()`) is
   evaluated symbolically; in EVERY world that is compatible with the enum
   variants on the position's path the position must be pushed / inserted.
   A world that skips the push because of an unrelated condition (another field's
   value) is a missing edge;
 * function bodies are delegated to the generated visitor (R-VISIT): the rule only
   requires that the Local arm runs dfs_in_order with the UsedVisitor from the
   function's entry block.
"""
import re
from registry import RuleResult
from heval import Evaluator, Policy, EvalError, sym, show, NONE, subterms
from adtwalk import positions, show_path, peel, id_kind

UN = 'passes::used::Used::new'
USED = 'passes::used::Used'
CUT = ('ir::InstrSeq',)


def used_kinds(F):
    a = F.adt(USED)
    if not a:
        return None
    out = {}
    for fd in a['variants'][0]['fields']:
        m = re.search(r'id_arena::Id<([^>]+)>', fd['ty'])
        if m:
            out[m.group(1)] = fd['name']
    return out


def count_loops(n):
    c = [0]

    def walk(x):
        if isinstance(x, dict):
            if x.get('k') == 'Loop':
                c[0] += 1
            for v in x.values():
                walk(v)
        elif isinstance(x, list):
            for v in x:
                walk(v)
    walk(n)
    return c[0]


def worklist_host(F):
    """the function that contains the fixpoint loop of the reachability computation: Used::new itself, or a helper in the
    same file that it was moved into.  Found by shape: a loop at statement level that contains one loop per worklist."""
    from heval import file_of
    from mirinline import callee_of
    home = file_of(F, UN)
    cands = [UN]
    seen = {UN}
    frontier = [UN]
    for _ in range(3):
        nxt = []
        for p in frontier:
            for q, body in F.mir.items():
                if q != p and not q.startswith(p + '::{closure'):
                    continue
                for blk in body['blocks']:
                    t = blk['term']
                    if t.get('t') == 'Call':
                        c = callee_of(t)
                        if c and c in F.hir and c not in seen and file_of(F, c) == home:
                            seen.add(c)
                            cands.append(c)
                            nxt.append(c)
        frontier = nxt
    for c in cands:
        for s_ in F.hir[c]['body'].get('stmts', []) + ([F.hir[c]['body']['expr']] if F.hir[c]['body'].get('expr') else []):
            e = s_.get('e', s_) if s_.get('k') == 'Semi' else s_
            if e.get('k') == 'Loop' and count_loops(e) + sum(count_loops(F.hir[g]['body']) for g in local_callees_of(F, e, home)) >= 4:
                return c
    return None


def local_callees_of(F, node, home):
    """functions written in file `home` that are called (directly) inside the HIR node"""
    from heval import file_of, norm_path
    if not hasattr(F, '_norm_hir'):
        F._norm_hir = {}
        for k in F.hir:
            F._norm_hir.setdefault(norm_path(k), k)
    out = []

    def walk(n):
        if isinstance(n, dict):
            c = n.get('callee')
            if c:
                q = c if c in F.hir else F._norm_hir.get(norm_path(c))
                if q and q not in out and file_of(F, q) == home and '{closure' not in q:
                    out.append(q)
            for v in n.values():
                walk(v)
        elif isinstance(n, list):
            for v in n:
                walk(v)
    walk(node)
    return out


def inner_loops(F, host=None):
    host = host or UN
    h = F.hir[host]
    body = h['body']
    mod_id = stack_id = None
    for prm in h['params']:
        ty = prm.get('ty') or ''
        if prm.get('k') != 'Bind':
            continue
        if 'module::Module' in ty:
            mod_id = prm['id']
        elif 'Roots' in ty:
            stack_id = prm['id']
    lets = [s for s in body['stmts'] if s['k'] == 'Let' and s['pat'].get('k') == 'Bind']
    if stack_id is None:
        stack_id = lets[0]['pat']['id']
    outer = None
    pre = []
    post = []
    stmts = list(body['stmts']) + ([body['expr']] if body.get('expr') else [])
    post_stmts = []
    for s in stmts:
        e = s.get('e', s) if s.get('k') == 'Semi' else s
        if e.get('k') == 'Loop' and outer is None:
            outer = e
            continue
        if outer is not None and s is not body.get('expr'):
            post_stmts.append(s)
        if s.get('k') == 'Let':
            continue
        (pre if outer is None else post).append(e)
    if any(s.get('k') == 'Let' for s in post_stmts):
        # what follows the closure introduces locals of its own: evaluate it as one block, not statement by statement
        post = [{'k': 'Block', 'l': post_stmts[0].get('l'), 'stmts': post_stmts, 'expr': body.get('expr')}]
    inner = []

    def walk(n):
        if isinstance(n, dict):
            if n.get('k') == 'Loop' and n is not outer:
                inner.append(n)
                return
            for v in n.values():
                walk(v)
        elif isinstance(n, list):
            for v in n:
                walk(v)
    walk(outer)
    # worklist loops that were moved into helpers (`roots.drain_funcs(module)`): (function, loop node, parameter environment)
    from heval import file_of
    home = file_of(F, host)
    F._edges_helper_loops = []
    for g in local_callees_of(F, outer, home):
        gh = F.hir[g]
        genv = {}
        for prm in gh['params']:
            ty = prm.get('ty') or ''
            if prm.get('k') != 'Bind':
                continue
            if 'module::Module' in ty:
                genv[prm['id']] = sym('module')
            elif 'Roots' in ty:
                genv[prm['id']] = sym('stack')
        found = []

        def walk2(n):
            if isinstance(n, dict):
                if n.get('k') == 'Loop':
                    found.append(n)
                    return
                for v in n.values():
                    walk2(v)
            elif isinstance(n, list):
                for v in n:
                    walk2(v)
        walk2(gh['body'])
        for n in found:
            F._edges_helper_loops.append((g, n, genv))
    return mod_id, stack_id, pre, outer, inner, post


def lets_before(outer, node):
    """`let` statements of the blocks enclosing `node` inside `outer` that come before it"""
    found = []

    def walk(n, acc):
        if n is node:
            found.append(list(acc))
            return True
        if isinstance(n, dict):
            if n.get('k') == 'Block' and 'stmts' in n:
                here = list(acc)
                for st in n['stmts']:
                    if walk(st, here):
                        return True
                    if st.get('k') == 'Let':
                        here.append(st)
                if n.get('expr') is not None and walk(n['expr'], here):
                    return True
                return False
            for v in n.values():
                if isinstance(v, (dict, list)) and walk(v, acc):
                    return True
        elif isinstance(n, list):
            for v in n:
                if walk(v, acc):
                    return True
        return False
    walk(outer, [])
    return found[0] if found else []


def prefix_stmts(F):
    """all statements of Used::new before the worklist loop, `let`s included"""
    out = []
    for s in F.hir[UN]['body']['stmts']:
        e = s.get('e', s) if s['k'] == 'Semi' else s
        if e.get('k') == 'Loop':
            break
        out.append(s)
    return out


def push_kind(F, e):
    """kind pushed by an effect: from the callee's parameter type (Roots::push_*) or the set inserted into"""
    callee = e['callee']
    if callee.startswith('passes::used::Roots::'):
        h = F.hir.get(callee)
        if h and len(h['params']) >= 2:
            return id_kind(h['params'][1].get('ty', ''))
    if callee.endswith('HashSet::insert'):
        root, path = peel(e['args'][0])
        # stack.used.<field>
        if path and path[-1][0] == 'f':
            a = F.adt(USED)
            for fd in a['variants'][0]['fields']:
                if fd['name'] == path[-1][1]:
                    m = re.search(r'id_arena::Id<([^>]+)>', fd['ty'])
                    return m.group(1) if m else None
    return None


def popped_kind(F, loop_node, kinds):
    c = loop_node['body']['expr']['c']
    ty = c['init'].get('ty', '')
    m = re.search(r'id_arena::Id<([^>]+)>', ty)
    return m.group(1) if m else None


def world_consistent(w, root, pos_path):
    """does world w allow the enum variants named on pos_path (below entity root)?"""
    for k, v in w.assumptions:
        if not (isinstance(v, tuple) and v and v[0] == 'ctor'):
            continue
        if isinstance(k, tuple) and k and k[0] == 'atom':
            continue
        r, p = peel(k)
        if r != root:
            continue
        n = len(p)
        if pos_path[:n] != p:
            continue
        if n < len(pos_path):
            step = pos_path[n]
            if step[0] == 'vf':
                if step[1].split('.')[0] != v[2]:
                    return False
            elif step[0] == 'some':
                if v[2] != 'Some':
                    return False
    return True


def cond_text(w):
    out = []
    for k, v in w.assumptions:
        if isinstance(k, tuple) and k and k[0] == 'atom':
            out.append('%s=%s' % (show(k[1]), v))
        elif isinstance(v, tuple) and v[0] == 'ctor':
            out.append('%s is %s' % (show(k), v[2]))
    return '; '.join(out)


def run(ctx):
    F = ctx.F
    res = RuleResult('R-EDGES', 'Used::new follows every id-typed field of every kept entity; roots are the documented ones')
    res.floor = 14
    kinds = used_kinds(F)
    if not kinds or UN not in F.hir:
        res.error('anchor lost: passes::used::Used / Used::new')
        return res
    tracked = set(kinds)
    host = worklist_host(F)
    if host is None:
        res.error('the reachability computation has no recognisable worklist loop (Used::new and the helpers next to it)')
        return res
    try:
        mod_id, stack_id, pre, outer, inner, post = inner_loops(F, host)
    except Exception as e:
        res.error('Used::new does not have the roots / worklist-loop shape: %r' % (e,))
        return res
    env = {mod_id: sym('module'), stack_id: sym('stack')}
    # primitive pushes = methods of Roots taking an id (they mark it used and queue it); any other helper on Roots
    # (one that takes a ConstExpr, an offset, ...) is looked through
    prim = set()
    for p, h in F.hir.items():
        if p.startswith('passes::used::Roots::') and len(h.get('params', [])) >= 2 and id_kind(h['params'][1].get('ty', '')):
            prim.add(p)
    pol = Policy(effects=lambda p: p in prim or bool(re.search(r'HashSet::insert$|dfs_in_order$|add_gc_roots$', p)),
                 inline=lambda p: not (p in prim or 'dfs_in_order' in p))
    ev = Evaluator(F, pol)
    loops_by_kind = {}
    where_of = {}
    for n in inner:
        k = popped_kind(F, n, kinds)
        if k:
            loops_by_kind[k] = n
    for g, n, genv in getattr(F, '_edges_helper_loops', []):
        try:
            k = popped_kind(F, n, kinds)
        except (KeyError, TypeError):
            k = None
        if k and k not in loops_by_kind:
            loops_by_kind[k] = n
            where_of[k] = (g, genv)
    for kind in sorted(tracked):
        short = kind.split('::')[-1]
        cut_hits = []
        pos = [(p, k) for p, k in positions(F, kind, tracked, CUT, cut_hits=cut_hits)
               if not (p == (('f', 'id'),) and k == kind)]
        if kind not in loops_by_kind:
            if pos or cut_hits:
                res.bad('closure/%s/no-worklist' % short,
                        '%s has id-typed fields %s but Used::new has no worklist loop for it'
                        % (short, [show_path(p) for p, _ in pos][:6]))
            else:
                res.ok('closure/%s/leaf' % short, {'kind': short, 'positions': 0}, nontrivial=False)
            continue
        node = loops_by_kind[kind]
        try:
            if kind in where_of:
                worlds = ev.run_node(where_of[kind][0], node, where_of[kind][1])
            else:
                # locals introduced inside the fixpoint loop before this worklist loop (a visitor built once per round, ...)
                lets = lets_before(outer, node)
                blk = {'k': 'Block', 'l': node.get('l'), 'stmts': lets, 'expr': node} if lets else node
                worlds = ev.run_node(host, blk, env)
        except EvalError as e:
            res.error('worklist loop for %s not analysable: %s' % (short, e))
            continue
        # entity root: the term that the pushes of this loop are projections of
        roots = {}
        for w in worlds:
            for e in w.trace:
                if e['kind'] == 'call' and push_kind(F, e):
                    r, p = peel(e['args'][-1])
                    roots[r] = roots.get(r, 0) + 1
            for k, v in w.assumptions:
                if isinstance(k, tuple) and k[0] != 'atom':
                    r, p = peel(k)
                    roots[r] = roots.get(r, 0) + 1
        roots = [r for r in roots if 'pop(' in show(r)]
        if len(roots) != 1:
            if not pos and not cut_hits:
                res.ok('closure/%s/leaf' % short, nontrivial=False)
                continue
            if not roots:
                # the loop pops ids of this kind but never looks at the popped entity: none of its references is followed
                for path, k in pos:
                    res.bad('closure/%s%s->%s' % (short, show_path(path), k.split('::')[-1]),
                            'GC does not follow %s%s (a %s id): the %s worklist loop never reads the entity it pops'
                            % (short, show_path(path), k.split('::')[-1], short))
                continue
            res.error('cannot identify the entity term in the %s worklist loop (%s)' % (short, [show(r) for r in roots]))
            continue
        root = roots[0]
        for path, k in pos:
            key = 'closure/%s%s->%s' % (short, show_path(path), k.split('::')[-1])
            if offset_reffunc(path):
                if offsets_are_numeric(F):
                    res.ok(key + '/exempt', {'position': short + show_path(path), 'exempt': 'offset expressions are numeric: '
                                             'parse_data/parse_elements reject everything but Value/Global'}, nontrivial=False)
                    continue
            missing = []
            n_rel = 0
            for w in worlds:
                if not world_consistent(w, root, path):
                    continue
                n_rel += 1
                hit = False
                for e in w.trace:
                    if e['kind'] != 'call' or push_kind(F, e) != k:
                        continue
                    r, p = peel(e['args'][-1])
                    if r == root and p == path:
                        hit = True
                        break
                if not hit and w.outcome != 'pruned':
                    missing.append(w)
            if n_rel == 0:
                res.bad(key + '/unreachable', 'no analysed path of the %s loop reaches %s' % (short, show_path(path)))
            elif missing:
                res.bad(key, 'GC does not follow %s%s (a %s id) when: %s'
                        % (short, show_path(path), k.split('::')[-1], ' | '.join(sorted({cond_text(w) or 'always' for w in missing}))[:400]))
            else:
                res.ok(key, {'position': short + show_path(path), 'kind': k.split('::')[-1], 'worlds': n_rel})
        # precision: a worklist step may only retain what the popped entity refers to
        posset = {(pp, kk) for pp, kk in pos}
        for w in worlds:
            for e in w.trace:
                if e['kind'] != 'call':
                    continue
                k = push_kind(F, e)
                if not k:
                    continue
                r, pth = peel(e['args'][-1])
                if r == root and (pth, k) in posset:
                    continue
                res.bad('closure/%s/extra/%s' % (short, re.sub(r'\W+', '_', show(e['args'][-1]))[:50]),
                        'while tracing a %s the GC also retains %s (a %s) which that %s does not refer to: unreachable items '
                        'would survive the pass [%s]' % (short, show(e['args'][-1])[:120], k.split('::')[-1], short, cond_text(w)[:160]))
        for path, head in cut_hits:
            # delegated to the visitor: the world that holds this position must run dfs_in_order with UsedVisitor
            key = 'closure/%s%s/visitor' % (short, show_path(path))
            okk = False
            for w in worlds:
                if not world_consistent(w, root, path + (('elem',),)):
                    continue
                for e in w.trace:
                    if e['kind'] == 'call' and e['callee'].endswith('dfs_in_order'):
                        okk = True
            vt = gc_visitor_type(F)
            inst = [i for i in F.insts_of('ir::traversals::dfs_in_order') if vt and vt in ' '.join(F.instances[i]['args'])]
            if okk and inst:
                res.ok(key, {'position': short + show_path(path), 'delegated_to': 'dfs_in_order::<UsedVisitor>'})
            else:
                res.bad(key, 'function bodies are not traversed with the UsedVisitor')
    check_hooks(F, res, ev, tracked)
    check_roots(F, res, ev, env, pre, post, tracked, prefix=prefix_stmts(F), host=host, prim=prim)
    res.exhaustive = True
    return res


def gc_visitor_hooks(F):
    """hooks of the visitor that the GC closure runs over function bodies: the `ir::Visitor` impl written next to Used::new"""
    from heval import file_of
    home = file_of(F, UN)
    return [p for p in F.hir if re.match(r'^<[\w:]+(<.*?>)? as ir::Visitor', p) and file_of(F, p) == home and '{closure' not in p]


def gc_visitor_type(F):
    hs = gc_visitor_hooks(F)
    if not hs:
        return None
    m = re.match(r'^<([\w:]+)', hs[0])
    return m.group(1) if m else None


def check_hooks(F, res, ev, tracked):
    """precision of the function-body side: a hook of the visitor that the closure runs over function bodies may mark
    only what it was handed - the id it is called with (or an id stored in the instruction it is called with).  A hook
    that goes looking through the module's arenas for other things to keep adds edges the emitted module does not
    have: unreachable items survive the pass."""
    from heval import file_of
    home = file_of(F, UN)
    hooks = [p for p in F.hir if re.match(r'^<[\w:]+(<.*?>)? as ir::Visitor', p) and file_of(F, p) == home and '{closure' not in p]
    if len(hooks) < 5:
        res.error('visitor hooks of the GC closure not found (%d)' % len(hooks))
        return
    for hp in sorted(hooks):
        h = F.hir[hp]
        name = hp.split('::')[-1]
        if len(h['params']) != 2:
            continue
        arg = sym('operand')
        try:
            ws = ev.run_fn(hp, [sym('self'), arg])
        except EvalError as e:
            res.error('%s not analysable: %s' % (name, e))
            continue
        want = id_kind(h['params'][1].get('ty', ''))
        bad = None
        n = 0
        for w in ws:
            for e in w.trace:
                if e['kind'] != 'call':
                    continue
                k = push_kind(F, e)
                if not k:
                    continue
                n += 1
                r, pth = peel(e['args'][-1])
                if r != arg:
                    bad = 'marks %s, which is not what the hook was called with' % show(e['args'][-1])[:100]
                elif want and (k != want or pth):
                    bad = 'called with a %s id but marks %s as a %s' % (want.split('::')[-1], show(e['args'][-1])[:60], k.split('::')[-1])
        key = 'visitor-hook/' + name
        if bad:
            res.bad(key + '/extra', 'the GC visitor hook %s %s: items nothing in the emitted module refers to would survive the pass' % (name, bad))
        elif want in tracked and not all(any(push_kind(F, e) == want for e in w.trace if e['kind'] == 'call') for w in ws if w.outcome == 'return'):
            res.bad(key + '/missing', 'the GC visitor hook %s does not mark the %s it is called with on every path: an item used only '
                    'from function bodies would be deleted' % (name, want.split('::')[-1]))
        else:
            res.ok(key, {'hook': name, 'marks': 'its own operand' if n else 'nothing'}, nontrivial=bool(n))


def offset_reffunc(path):
    for a, b in zip(path, path[1:]):
        if a[0] == 'vf' and a[1].endswith('.offset') and b[0] == 'vf' and b[1].startswith('RefFunc.'):
            return True
    return False


def offsets_are_numeric(F):
    """re-derived on the worlds of both segment parsers: no successful path keeps an offset expression that is anything
    but a constant value or a global read (a `ref.func` / `ref.null` offset is rejected), however the check is written"""
    import flowlib as fl
    from flowlib import worlds_of
    pol = fl.policy(no_inline=('const_expr::ConstExpr::eval', 'const_expr::ConstExpr::to_wasmencoder_type'))
    okk = 0
    for fn in ('parse_data', 'parse_elements'):
        try:
            _, ws = worlds_of(F, fn, [sym('self'), sym('section'), sym('ids')], pol, key='edges-offsets')
        except (EvalError, KeyError):
            return False
        saw_numeric = False
        bad = False
        for w in ws:
            v = w.value
            is_ok = w.outcome == 'return' and isinstance(v, tuple) and v and v[0] == 'ctor' and v[2] == 'Ok'
            for k, val in w.assumptions:
                if isinstance(k, tuple) and k and k[0] == 'atom':
                    continue
                if not (isinstance(val, tuple) and val and val[0] == 'ctor' and val[1].endswith('ConstExpr')):
                    continue
                sk = show(k)
                # the evaluated *offset* expression of an active segment (not an element item)
                if 'eval(' not in sk or 'offset_expr' not in sk and 'offset' not in sk:
                    continue
                if 'items' in sk or 'elem(elem(' in sk:
                    continue
                if val[2] in ('Value', 'Global'):
                    saw_numeric = saw_numeric or is_ok
                elif is_ok:
                    bad = True
        if saw_numeric and not bad:
            okk += 1
    return okk == 2


def mentions_term(t, what):
    if t == what:
        return True
    if isinstance(t, (tuple, list)):
        return any(mentions_term(x, what) for x in t)
    return False


def event_cond(w, root):
    """the conditions of world w that talk about one loop element (or value) `root`"""
    out = []
    for k, v in w.assumptions:
        if isinstance(k, tuple) and k and k[0] == 'atom':
            if mentions_term(k[1], root):
                out.append('%s=%s' % (show(k[1]), v))
        elif isinstance(v, tuple) and v and v[0] == 'ctor' and mentions_term(k, root):
            out.append('%s is %s' % (show(k), v[2]))
    return '; '.join(out)


KIND_OF_EXPORT = {'Function': 'module::functions::Function', 'Table': 'module::tables::Table',
                  'Memory': 'module::memories::Memory', 'Global': 'module::globals::Global'}


def check_roots(F, res, ev, env, pre, post, tracked, prefix=None, host=None, prim=()):
    """documented roots: exports, start, active data, active elements of imported tables, declared elements, custom sections.
    Everything before the worklist loop (initialisers included, helpers looked through) is evaluated as one block; each
    push is classified from its own argument and from the conditions on the element it was taken from."""
    seen = set()
    extra = []
    h = F.hir[UN]
    block = {'k': 'Block', 'stmts': list(prefix or []), 'l': h['body'].get('l')}
    env0 = {k: v for k, v in env.items() if v == sym('module')}
    post_worlds = None
    try:
        if host in (None, UN):
            worlds = ev.run_node(UN, block, env0)
        else:
            # the fixpoint lives in a helper: evaluate all of Used::new with that helper kept as one opaque step; what is
            # pushed before it are the roots, what is retained after it is the residue
            pol2 = Policy(effects=lambda p: p in prim or p == host or bool(re.search(r'HashSet::insert$|dfs_in_order$|add_gc_roots$', p)),
                          inline=lambda p: not (p in prim or p == host or 'dfs_in_order' in p))
            allw = Evaluator(F, pol2).run_fn(UN, [sym('module')])
            worlds, post_worlds = [], []
            for w in allw:
                cut = [i for i, e in enumerate(w.trace) if e['kind'] == 'call' and e['callee'] == host]
                if not cut:
                    worlds.append(w)
                    continue
                import copy
                w1, w2 = copy.copy(w), copy.copy(w)
                w1.trace = w.trace[:cut[0]]
                w2.trace = w.trace[cut[-1] + 1:]
                worlds.append(w1)
                post_worlds.append(w2)
    except EvalError as e:
        res.error('root statements of Used::new not analysable: %s' % e)
        worlds = []
    for w in worlds:
        if w.outcome == 'panic':
            continue
        pushed_roots = {}
        for e in w.trace:
            if e['kind'] != 'call':
                continue
            if e['callee'].endswith('add_gc_roots'):
                if 'customs' in show(e['args'][0]):
                    seen.add('custom-sections')
                else:
                    extra.append('add_gc_roots(%s)' % show(e['args'][0])[:60])
                continue
            kind = push_kind(F, e)
            if kind is None or not e['callee'].startswith('passes::used::Roots::'):
                continue
            arg = e['args'][-1]
            r, pth = peel(arg)
            sa, sr = show(arg), show(r)
            cond = event_cond(w, r)
            short = kind.split('::')[-1]
            cat = None
            if 'module.exports' in sr:
                m = re.search(r'item\.(\w+)\.0$', sa)
                if m and KIND_OF_EXPORT.get(m.group(1)) == kind:
                    cat = 'export:' + m.group(1)
            elif sa.startswith('module.start'):
                cat = 'start' if short == 'Function' else None
            elif short == 'Data' and 'module.data' in sr and re.search(r'kind is Active', cond):
                cat = 'data:active'
            elif short == 'Element' and 'module.elements' in sr:
                if re.search(r'kind is Declared', cond):
                    cat = 'element:declared'
                elif re.search(r'kind is Active', cond) and has_import_cond(w, r):
                    cat = 'element:active-imported-table'
            if cat is None:
                extra.append('%s(%s) when [%s]' % (e['callee'].split('::')[-1], sa[:80], cond[:160]))
            else:
                seen.add(cat)
                pushed_roots.setdefault(sr, set()).add(cat)
        if w.outcome != 'return':
            continue
        # conditions under which documented roots must be pushed
        for k, v in w.assumptions:
            if not (isinstance(v, tuple) and v and v[0] == 'ctor') or (isinstance(k, tuple) and k and k[0] == 'atom'):
                continue
            r, pth = peel(k)
            sr = show(r)
            need = None
            if 'module.data' in sr and v[1].endswith('DataKind') and v[2] == 'Active':
                need = 'data:active'
            elif 'module.elements' in sr and v[1].endswith('ElementKind') and v[2] == 'Declared':
                need = 'element:declared'
            elif 'module.elements' in sr and v[1].endswith('ElementKind') and v[2] == 'Active' and has_import_cond(w, r):
                need = 'element:active-imported-table'
            if need and need not in pushed_roots.get(sr, set()):
                res.bad('roots/missing/' + need, 'root category "%s" is not pushed when [%s]' % (need, event_cond(w, r)[:200]))
    want = ['export:Function', 'export:Table', 'export:Memory', 'export:Global', 'start', 'data:active',
            'element:active-imported-table', 'element:declared', 'custom-sections']
    for c in want:
        if c in seen:
            res.ok('roots/' + c, {'root': c})
        else:
            res.bad('roots/' + c, 'root category "%s" is never pushed by Used::new' % c)
    for x in extra:
        res.bad('roots/extra/' + re.sub(r'\W+', '_', x)[:60], 'undocumented GC root: ' + x)
    # post-loop: the documented memory residue only
    post_groups = []
    if post_worlds is not None:
        post_groups.append(post_worlds)
    else:
        for node in post:
            try:
                post_groups.append(ev.run_node(UN, node, env))
            except EvalError as e:
                res.error('post-closure statement at line %s not analysable: %s' % (node.get('l'), e))
    for worlds in post_groups:
        for w in worlds:
            for e in w.trace:
                if e['kind'] == 'call' and (e['callee'].endswith('HashSet::insert') or 'Roots::push_' in e['callee']):
                    tgt = show(e['args'][0])
                    cond = cond_text(w)
                    if tgt.endswith('used.memories') and 'is_empty' in cond:
                        res.ok('roots/memory-residue', {'residue': 'first memory kept when data segments remain'}, nontrivial=False)
                    else:
                        res.bad('roots/extra-post/' + re.sub(r'\W+', '_', tgt)[:40],
                                'undocumented retention after the closure: %s into %s when [%s]' % (show(e['args'][-1]), tgt, cond))


def has_import_cond(w, root):
    """this world knows that the table the active segment `root` initialises is imported"""
    for k, v in w.assumptions:
        if isinstance(k, tuple) and k and k[0] == 'atom':
            t = show(k[1])
            if 'import' in t and mentions_term(k[1], root) and (('is_some(' in t and v is True) or ('is_none(' in t and v is False)):
                return True
        elif isinstance(v, tuple) and v and v[0] == 'ctor' and v[2] == 'Some' and 'import' in show(k) and mentions_term(k, root):
            return True
    return False


def classify_root(name, arg, cond):
    if 'exports' in arg and '.item' in arg:
        m = re.search(r'item\.(\w+)\.0', arg)
        if m and name == {'Function': 'push_func', 'Table': 'push_table', 'Memory': 'push_memory', 'Global': 'push_global'}.get(m.group(1)):
            return 'export:' + m.group(1)
        return None
    if arg.startswith('module.start'):
        return 'start' if name == 'push_func' else None
    if name == 'push_data' and 'module.data' in arg and 'is Active' in cond and '.kind' in cond:
        return 'data:active'
    if name == 'push_element' and 'module.elements' in arg:
        if 'is Declared' in cond:
            return 'element:declared'
        if 'is Active' in cond and 'import' in cond and ('is_some' in cond or 'is Some' in cond):
            if 'is_some(' in cond and '=True' in cond or 'is Some' in cond:
                return 'element:active-imported-table'
        return None
    if name == 'add_gc_roots' and 'customs' in arg:
        return 'custom-sections'
    return None


def required_root(w, cond):
    if 'module.data' in cond and 'is Active' in cond:
        return 'data:active'
    if 'module.elements' in cond and 'is Declared' in cond:
        return 'element:declared'
    if 'module.elements' in cond and 'is Active' in cond and 'is_some(' in cond and '=True' in cond:
        return 'element:active-imported-table'
    return None
