"""R-EFFECTS: the function-replacement edits rewire exactly one thing.

Both functions are evaluated with nothing inlined; the trace of a successful world
is the complete list of their effects on the module.

replace_imported_func(fid, ..):
  * returns Ok(fid) (the identifier is kept);
  * the only deletion in the trace is ModuleImports::delete(imports, x) with x taken from
    imports.get_imported_func(fid) - not from a search by name or anything else;
  * the only store is `funcs.get_mut(fid).kind = FunctionKind::Local(..)`;
  * the builder is created with (params, results) of the function's own type, in that order,
    and one local is created per parameter.
replace_exported_func(fid, ..):
  * the only store is `exports.get_mut(e).item = ExportItem::Function(new)` where e comes from
    exports.get_exported_func(fid) and `new` is the id returned by funcs.add_local;
  * nothing is deleted and the original function is not modified; returns Ok(new)."""
import re
from registry import RuleResult
from heval import Evaluator, Policy, EvalError, sym, show, cfield, strip_after, local_policy

RI = 'module::functions::<impl module::Module>::replace_imported_func'
RE = 'module::functions::<impl module::Module>::replace_exported_func'
DELETIONS = re.compile(r'::(delete|remove|clear|truncate|retain|drain)$')


def ok_worlds(ws):
    out = []
    for w in ws:
        v = w.value
        if w.outcome == 'return' and isinstance(v, tuple) and v and v[0] == 'ctor' and v[2] == 'Ok':
            out.append(w)
    return out


def run(ctx):
    F = ctx.F
    res = RuleResult('R-EFFECTS', 'function replacement rewires exactly one thing')
    res.floor = 9
    pol = local_policy(F, RI, public_events=True)
    ev = Evaluator(F, pol)
    for path in (RI, RE):
        if path not in F.hir:
            res.error('anchor lost: ' + path)
            return res
    try:
        imported(F, res, ev)
        exported(F, res, ev)
        lookups(F, res)
    except EvalError as e:
        res.error('not analysable: %s' % e)
    return res


def builder_sig_ok(w, ty_term_pred):
    """FunctionBuilder::new(types, params, results) with params/results of one type, in order"""
    fb = [e for e in w.trace if e['kind'] == 'call' and e['callee'].endswith('FunctionBuilder::new')]
    if len(fb) != 1:
        return 'FunctionBuilder::new is called %d times' % len(fb)
    a = fb[0]['args']
    p, r = show(a[1]), show(a[2])
    mp = re.match(r'^params\((.*)\)$', p)
    mr = re.match(r'^results\((.*)\)$', r)
    if not mp or not mr:
        return 'the builder does not receive (params, results) of a type in that order: (%s, %s)' % (p[:60], r[:60])
    if mp.group(1) != mr.group(1):
        return 'params and results are taken from different types'
    if not ty_term_pred(mp.group(1)):
        return 'the signature is not the one of the replaced function: %s' % mp.group(1)[:100]
    return None


def lookups(F, res):
    """the lookups both replace functions start from: get_exported_func(f) / get_imported_func(f) select an entry exactly when it
    is a *function* entry whose function is f - no entry of another kind can be selected, and none that qualifies is discarded"""
    for p, field in (('module::exports::ModuleExports::get_exported_func', 'item'), ('module::imports::ModuleImports::get_imported_func', 'kind')):
        short = p.split('::')[-1]
        if p not in F.hir:
            res.error('anchor lost: ' + p)
            continue
        ws = Evaluator(F, local_policy(F, p, events=[r'^std::'])).run_fn(p, [sym('self'), sym('f')])
        bad = None
        sel = 0
        for w in ws:
            if w.outcome != 'return':
                bad = 'a path ends in %s' % w.outcome
                continue
            v = w.value
            while v[0] == 'ok':
                v = v[1]
            looped = False
            if v[0] == 'ctor' and v[2] == 'Some' and 'elem(' in show(v) and 'self.arena' in show(v):
                verdict, looped = 'True', True          # a hand-written search loop returning the current entry
            elif v == ('ctor', 'std::option::Option', 'None', ()) and any(e['kind'] == 'loop_exit' or e['loops'] for e in w.trace) \
                    or (v[0] == 'ctor' and v[2] == 'None' and any('self.arena' in show(k) for k, _ in w.assumptions)):
                verdict, looped = 'False', True         # ... or falling out of it
            elif not (v[0] == 'call' and v[1].split('::')[-1] in ('find', 'find_map') and len(v[2]) == 2 and 'self.arena' in show(v[2][0])):
                bad = 'the result is %s, not a search of this collection' % show(v)[:80]
                continue
            else:
                verdict = show(v[2][1])
            variant = [vv[2] for k, vv in w.assumptions if isinstance(vv, tuple) and vv and vv[0] == 'ctor'
                       and show(k).endswith('.' + field)]
            eq_true = False
            for k, vv in w.assumptions:
                if isinstance(k, tuple) and k and k[0] == 'atom':
                    t = k[1]
                    if t[0] == 'bin' and t[1] == 'Eq' and vv is True and {show(t[2]), show(t[3])} & {'f'} \
                            and any(x.endswith('.%s.Function.0' % field) for x in (show(t[2]), show(t[3]))):
                        eq_true = True
            if 'Function.0 Eq f' in verdict or 'f Eq ' in verdict and 'Function.0' in verdict:
                eq_true, verdict = True, 'True'
            selects = verdict not in ('False', 'Option::None')
            if selects:
                sel += 1
                if variant != ['Function'] or not eq_true:
                    bad = 'an entry is selected although it is %s%s' % (variant[0] if variant else 'of unknown kind',
                                                                        '' if eq_true else ' / its function is not compared with the argument')
            elif variant == ['Function'] and eq_true:
                bad = 'a function entry for f is not selected'
        if bad:
            res.bad('lookup/' + short, '%s: %s' % (short, bad))
        elif sel:
            res.ok('lookup/' + short, {'lookup': short, 'selects': 'exactly the entries that are Function(f)'})
        else:
            res.error('%s: no selecting world' % short)


def args_agree(w, res, which):
    """the argument locals shown to the user's closure are the ones the built function is given as parameters"""
    ind = [e for e in w.trace if e['kind'] == 'indirect_call' and e['callee'] == 'builder_fn']
    lf = [e for e in w.trace if e['kind'] == 'call' and e['callee'].endswith('FunctionBuilder::local_func')]
    key = which + '/closure-args-are-parameters'
    if len(ind) != 1 or len(lf) != 1:
        res.bad(key, 'replace_%s_func must call the user closure once and FunctionBuilder::local_func once (calls: %d, %d)'
                % (which, len(ind), len(lf)))
        return
    a = ind[0]['args'][0] if ind[0]['args'] else None
    shown = a[1][1] if isinstance(a, tuple) and a and a[0] in ('tup', 'tuple') and len(a[1]) == 2 else None
    given = lf[0]['args'][1] if len(lf[0]['args']) > 1 else None
    if shown is not None and given is not None and strip_after(shown) == strip_after(given):
        res.ok(key, {'closure_args': show(shown)[:80], 'local_func_args': show(given)[:80]})
    else:
        res.bad(key, 'replace_%s_func hands the closure the locals %s but makes %s the parameters of the function it builds: '
                     'the body the user writes against its arguments would read other locals'
                % (which, show(shown)[:70] if shown is not None else '?', show(given)[:70] if given is not None else '?'))


def imported(F, res, ev):
    ws = ev.run_fn(RI, [sym('self'), sym('fid'), sym('builder_fn')])
    good = ok_worlds(ws)
    if not good:
        res.bad('imported/no-success-path', 'replace_imported_func has no successful path')
        return
    for w in good:
        calls = [e for e in w.trace if e['kind'] == 'call']
        stores = [e for e in w.trace if e['kind'] == 'store']
        # returns the same id
        if cfield(w.value, '0') == sym('fid'):
            res.ok('imported/keeps-id', {'returns': 'Ok(fid)'})
        else:
            res.bad('imported/keeps-id', 'replace_imported_func must return the identifier it was given; returns %s' % show(w.value)[:80])
        dels = [e for e in calls if DELETIONS.search(e['callee'])]
        if len(dels) == 1 and dels[0]['callee'].endswith('ModuleImports::delete') and show(dels[0]['args'][0]) == 'self.imports' \
                and 'get_imported_func(self.imports, fid)' in show(dels[0]['args'][1]) and 'id(' in show(dels[0]['args'][1]):
            res.ok('imported/deletes-own-import', {'delete': show(dels[0]['args'][1])[:100]})
        else:
            res.bad('imported/deletes-own-import', 'replace_imported_func must delete exactly the import found by '
                    'get_imported_func(fid), by id; deletions: %s'
                    % [(e['callee'].split('::')[-2] + '::' + e['callee'].split('::')[-1], [show(a)[:50] for a in e['args'][1:]]) for e in dels])
        if len(stores) == 1 and stores[0]['callee'].endswith('.kind') and show(stores[0]['args'][0]) == 'get_mut(self.funcs, fid)' \
                and show(stores[0]['args'][1]).startswith('FunctionKind::Local(local_func('):
            res.ok('imported/swaps-kind', {'store': 'funcs.get_mut(fid).kind = Local(builder.local_func(args))'})
        else:
            res.bad('imported/swaps-kind', 'the only store must turn funcs[fid] into a local function: %s'
                    % [(s['callee'], show(s['args'][0])[:40], show(s['args'][1])[:60]) for s in stores])
        why = builder_sig_ok(w, lambda t: 'get(self.funcs, fid)' in t and 'Import' in t)
        if why:
            res.bad('imported/signature', 'replace_imported_func: ' + why)
        else:
            res.ok('imported/signature', {'builder': 'FunctionBuilder::new(types, params(ty), results(ty)) of the import\'s own type'})
        adds = [e for e in calls if e['callee'].endswith('ModuleLocals::add')]
        if len(adds) == 1 and adds[0]['loops'] and 'params(' in show(adds[0]['loops'][-1]) and 'elem(' in show(adds[0]['args'][1]):
            res.ok('imported/arg-locals', {'locals': 'one per parameter, in order'})
        else:
            res.bad('imported/arg-locals', 'one local of the parameter\'s type must be created per parameter, in order')
        args_agree(w, res, 'imported')
        others = [e['callee'] for e in calls if re.search(r'Module(Exports|Tables|Memories|Globals|Data|Elements)::', e['callee'])
                  and not e['callee'].endswith('::get')]
        if others:
            res.bad('imported/other-collections', 'replace_imported_func also touches %s' % others)
        break


def exported(F, res, ev):
    ws = ev.run_fn(RE, [sym('self'), sym('fid'), sym('builder_fn')])
    good = ok_worlds(ws)
    if not good:
        res.bad('exported/no-success-path', 'replace_exported_func has no successful path')
        return
    for w in good:
        calls = [e for e in w.trace if e['kind'] == 'call']
        stores = [e for e in w.trace if e['kind'] == 'store']
        adds = [e for e in calls if e['callee'].endswith('ModuleFunctions::add_local')]
        dels = [e for e in calls if DELETIONS.search(e['callee'])]
        if dels:
            res.bad('exported/no-deletion', 'replace_exported_func must not delete anything: %s' % [e['callee'] for e in dels])
        else:
            res.ok('exported/no-deletion', {'deletions': 0})
        if len(adds) != 1:
            res.bad('exported/adds-one-function', 'replace_exported_func must add exactly one function (adds %d)' % len(adds))
            continue
        newid = 'add_local(self.funcs, %s)' % show(adds[0]['args'][1])
        okst = (len(stores) == 1 and stores[0]['callee'].endswith('.item')
                and show(stores[0]['args'][0]).startswith('get_mut(self.exports, ')
                and 'get_exported_func(self.exports, fid)' in show(stores[0]['args'][0])
                and show(stores[0]['args'][1]) == 'ExportItem::Function(%s)' % newid)
        if okst:
            res.ok('exported/retargets-own-export', {'store': 'exports.get_mut(export of fid).item = Function(new id)'})
        else:
            res.bad('exported/retargets-own-export', 'the only store must retarget the export found by get_exported_func(fid) to the '
                    'new function: %s' % [(s['callee'], show(s['args'][0])[:60], show(s['args'][1])[:60]) for s in stores])
        if show(cfield(w.value, '0')) == newid:
            res.ok('exported/returns-new-id', {'returns': 'Ok(id of the added function)'})
        else:
            res.bad('exported/returns-new-id', 'replace_exported_func must return the id of the function it added')
        gm = [e for e in calls if e['callee'].endswith('ModuleFunctions::get_mut') or e['callee'].endswith('ModuleFunctions::delete')]
        if gm:
            res.bad('exported/original-untouched', 'the original function must stay untouched for internal callers')
        else:
            res.ok('exported/original-untouched', {'funcs.get_mut': 0})
        why = builder_sig_ok(w, lambda t: 'get(self.funcs, fid)' in t)
        if why:
            res.bad('exported/signature', 'replace_exported_func: ' + why)
        else:
            res.ok('exported/signature', {'builder': 'FunctionBuilder::new(types, params(ty), results(ty)) of the function\'s own type'})
        args_agree(w, res, 'exported')
        break
