"""R-EMITORDER: in Module::emit_wasm an index is assigned before any section looks it up.

The ordered list of emit steps is read from the MIR of emit_wasm (straight-line
dominance order); for each step the instance-level call graph gives the index
spaces it assigns (IdsToIndices::push_* / set_data_index) and the ones it looks up
(get_*_index).  For every space K looked up by step s, every step that assigns K
must come no later than s, and at least one must exist.  The hand-over of the
index maps to custom sections (mem::take(cx.indices) -> CustomSection::data) must
come after every standard-section step."""
import re
from registry import RuleResult
from cfg import Cfg, callee_name
from heval import norm_path
from mirutil import where

EW = 'module::Module::emit_wasm'
PUSH = re.compile(r'^emit::IdsToIndices::(push_(\w+)|set_data_index)$')
GET = re.compile(r'^emit::IdsToIndices::get_(\w+)_index$')
SPACE = {'func': 'function'}


def spaces_of(defs):
    pushes, gets = set(), set()
    for d in defs:
        n = norm_path(d)
        m = PUSH.match(n)
        if m:
            pushes.add(SPACE.get(m.group(2), m.group(2)) if m.group(2) else 'data')
        m = GET.match(n)
        if m:
            gets.add(SPACE.get(m.group(1), m.group(1)))
    return pushes, gets


def steps_of(F):
    """ordered [(bb, callee, defs reachable)] for the non-macro calls of emit_wasm outside loops"""
    body = F.mir[EW]
    c = Cfg(body)
    insts = F.insts_of(EW)
    if len(insts) != 1:
        raise KeyError('emit_wasm instance')
    inst = insts[0]
    out = []
    for bb, t in c.calls():
        if t.get('mac') and 'log' in t['mac']:
            continue
        name = callee_name(t)
        if not name:
            continue
        edges = F.calls_from_block(inst, bb)
        start = [e[1] for e in edges if e[2] in ('call', 'virtual', 'dyn_impl', 'mention')]
        defs = F.reach_defs(start) if start else set()
        defs.add(name)
        out.append((bb, name, defs, c.in_loop(bb)))
    # order by dominance: a before b if a dominates b; emit_wasm is essentially straight-line so bb order of the
    # dominator chain works; verify
    out.sort(key=lambda x: len(c.dom()[x[0]] or ()))
    return body, c, out


def run(ctx):
    F = ctx.F
    res = RuleResult('R-EMITORDER', 'every index space is assigned before a section looks it up; index maps handed over last')
    res.floor = 10
    if EW not in F.mir:
        res.error('anchor lost: Module::emit_wasm')
        return res
    try:
        body, c, steps = steps_of(F)
    except KeyError as e:
        res.error('emit_wasm not analysable: %s' % e)
        return res
    info = []
    for bb, name, defs, inloop in steps:
        p, g = spaces_of(defs)
        info.append((bb, name, p, g, inloop))
    all_spaces = set()
    for _, _, p, g, _ in info:
        all_spaces |= p | g
    short = lambda n: norm_path(n).replace('module::', '').replace(' as emit::Emit>::emit', '>').replace('<', '')
    for i, (bb, name, p, g, inloop) in enumerate(info):
        for k in sorted(g):
            key = 'lookup/%s/%s' % (short(name), k)
            writers = [(j, info[j]) for j in range(len(info)) if k in info[j][2]]
            if not writers:
                res.bad(key + '/no-writer', 'step %s looks up %s indices but no emit step assigns them' % (short(name), k),
                        where(body, bb))
                continue
            late = [w for j, w in writers if j > i and not c.dominates(w[0], bb)]
            early = [w for j, w in writers if j <= i]
            if late:
                res.bad(key, 'step %s looks up %s indices before step %s assigns them'
                        % (short(name), k, ', '.join(short(w[1]) for w in late)), where(body, bb))
            elif not early:
                res.bad(key, 'step %s looks up %s indices that are assigned only later' % (short(name), k), where(body, bb))
            else:
                res.ok(key, {'step': short(name), 'looks_up': k, 'assigned_by': [short(w[1]) for w in early]})
    # hand-over: take(cx.indices) after every pushing step, before every CustomSection::data
    takes = [(bb, t) for bb, t in c.calls() if norm_path(callee_name(t) or '') == 'std::mem::take']
    datas = [bb for bb, name, p, g, l in info if norm_path(name).endswith('CustomSection::data')]
    handover = None
    for bb, t in takes:
        # the one whose result type is IdsToIndices
        dest = t['dest'][0]
        if 'IdsToIndices' in body['locals'][dest]['ty']:
            handover = bb
    if handover is None:
        if datas:
            res.bad('handover/missing', 'custom sections are serialised but the emit-time index map is never handed over')
    else:
        pushers = [(bb, name) for bb, name, p, g, l in info if p]
        bad = [short(n) for bb, n in pushers if not c.dominates(bb, handover)]
        if bad:
            res.bad('handover/early', 'the index map is handed to custom sections before %s assigned its indices' % bad,
                    where(body, handover))
        else:
            res.ok('handover/after-all-sections', {'handover_after': [short(n) for _, n in pushers]})
        for d in datas:
            if c.dominates(handover, d):
                res.ok('handover/before-custom-data', {'custom_data_at': where(body, d)})
            else:
                res.bad('handover/before-custom-data', 'CustomSection::data runs before the index map is complete', where(body, d))
    res.note('steps: ' + ' -> '.join(short(n) for _, n, p, g, l in info if p or g))
    return res
