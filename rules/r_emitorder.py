"""R-EMITORDER: in Module::emit_wasm an index is assigned before any section looks it up.

The ordered list of emit steps is read from the MIR of emit_wasm (straight-line
dominance order); for each step the instance-level call graph gives the index
spaces it assigns (IdsToIndices::push_* / set_data_index) and the ones it looks up
(get_*_index).  For every space K looked up by step s, every step that assigns K
must come no later than s, and at least one must exist.  The hand-over of the
index maps to custom sections (mem::take(cx.indices) -> CustomSection::data) must
come after every standard-section step."""
import re
from registry import RuleResult
from cfg import Cfg, callee_name
from heval import norm_path
from mirutil import where

EW = 'module::Module::emit_wasm'
PUSH = re.compile(r'^emit::IdsToIndices::(push_(\w+)|set_data_index)$')
GET = re.compile(r'^emit::IdsToIndices::get_(\w+)_index$')
SPACE = {'func': 'function'}


def spaces_of(defs):
    pushes, gets = set(), set()
    for d in defs:
        n = norm_path(d)
        m = PUSH.match(n)
        if m:
            pushes.add(SPACE.get(m.group(2), m.group(2)) if m.group(2) else 'data')
        m = GET.match(n)
        if m:
            gets.add(SPACE.get(m.group(1), m.group(1)))
    return pushes, gets


def steps_of(F):
    """ordered [(pos, callee, defs reachable, in_loop, (fn, bb))] for the non-macro calls of emit_wasm.  Calls to functions
    written in the same file that are not themselves an `Emit::emit` implementation (helpers into which a maintainer
    may split emit_wasm) are expanded in place, recursively, so the order is that of the leaf steps however the
    sequence is divided into functions.  Within one function calls are ordered by dominator depth (the sequence is
    straight-line apart from configuration switches)."""
    from heval import file_of
    insts = F.insts_of(EW)
    if len(insts) != 1:
        raise KeyError('emit_wasm instance')
    home = file_of(F, EW)
    out = []
    cfgs = {}

    def expandable(name, target_inst):
        n = norm_path(name)
        if n not in F.mir or file_of(F, n) != home or target_inst is None:
            return False
        if ' as emit::Emit>::emit' in n or n == EW:
            return False
        return True

    def walk(fn, inst, prefix, inloop0, depth):
        body = F.mir[fn]
        c = Cfg(body)
        cfgs[fn] = (body, c)
        calls = []
        for bb, t in c.calls():
            if t.get('mac') and 'log' in t['mac']:
                continue
            name = callee_name(t)
            if not name:
                continue
            calls.append((len(c.dom()[bb] or ()), bb, name))
        calls.sort()
        for k, (d, bb, name) in enumerate(calls):
            edges = F.calls_from_block(inst, bb)
            direct = [e[1] for e in edges if e[2] == 'call']
            pos = prefix + (k,)
            inloop = inloop0 or c.in_loop(bb)
            tgt = direct[0] if len(direct) == 1 else None
            if depth < 6 and expandable(name, tgt) and norm_path(F.instances[tgt]['def']) == norm_path(name):
                walk(norm_path(name), tgt, pos, inloop, depth + 1)
                continue
            start = [e[1] for e in edges if e[2] in ('call', 'virtual', 'dyn_impl', 'mention')]
            defs = F.reach_defs(start) if start else set()
            defs.add(name)
            out.append((pos, name, defs, inloop, (fn, bb)))
    walk(EW, insts[0], (), False, 0)
    out.sort(key=lambda x: x[0])
    return cfgs, out


def run(ctx):
    F = ctx.F
    res = RuleResult('R-EMITORDER', 'every index space is assigned before a section looks it up; index maps handed over last')
    res.floor = 10
    if EW not in F.mir:
        res.error('anchor lost: Module::emit_wasm')
        return res
    try:
        cfgs, steps = steps_of(F)
    except KeyError as e:
        res.error('emit_wasm not analysable: %s' % e)
        return res
    info = []
    for pos, name, defs, inloop, at in steps:
        p, g = spaces_of(defs)
        info.append((pos, name, p, g, inloop, at))
    short = lambda n: norm_path(n).replace('module::', '').replace(' as emit::Emit>::emit', '>').replace('<', '')
    wh = lambda at: where(cfgs[at[0]][0], at[1])
    for i, (pos, name, p, g, inloop, at) in enumerate(info):
        for k in sorted(g):
            key = 'lookup/%s/%s' % (short(name), k)
            writers = [(j, info[j]) for j in range(len(info)) if k in info[j][2]]
            if not writers:
                res.bad(key + '/no-writer', 'step %s looks up %s indices but no emit step assigns them' % (short(name), k), wh(at))
                continue
            late = [w for j, w in writers if j > i]
            early = [w for j, w in writers if j <= i]
            if late:
                res.bad(key, 'step %s looks up %s indices before step %s assigns them'
                        % (short(name), k, ', '.join(short(w[1]) for w in late)), wh(at))
            elif not early:
                res.bad(key, 'step %s looks up %s indices that are assigned only later' % (short(name), k), wh(at))
            else:
                res.ok(key, {'step': short(name), 'looks_up': k, 'assigned_by': [short(w[1]) for w in early]})
    # hand-over: take(cx.indices) after every pushing step, before every CustomSection::data
    handover = None
    for i, (pos, name, p, g, inloop, at) in enumerate(info):
        if norm_path(name) == 'std::mem::take':
            body = cfgs[at[0]][0]
            t = body['blocks'][at[1]]['term']
            dest = t['dest'][0]
            if 'IdsToIndices' in body['locals'][dest]['ty']:
                handover = i
    datas = [i for i, x in enumerate(info) if norm_path(x[1]).endswith('CustomSection::data')]
    if handover is None:
        if datas:
            res.bad('handover/missing', 'custom sections are serialised but the emit-time index map is never handed over')
    else:
        pushers = [(i, x[1]) for i, x in enumerate(info) if x[2]]
        bad = [short(n) for i, n in pushers if i > handover]
        if bad:
            res.bad('handover/early', 'the index map is handed to custom sections before %s assigned its indices' % bad,
                    wh(info[handover][5]))
        else:
            res.ok('handover/after-all-sections', {'handover_after': [short(n) for _, n in pushers]})
        for d in datas:
            if handover < d:
                res.ok('handover/before-custom-data', {'custom_data_at': wh(info[d][5])})
            else:
                res.bad('handover/before-custom-data', 'CustomSection::data runs before the index map is complete', wh(info[d][5]))
    # after the hand-over the context's index map is empty (it was taken): no step may look an index up in it any more
    if handover is not None:
        for i, (pos, name, p, g, inloop, at) in enumerate(info):
            if i > handover and g and not norm_path(name).endswith('CustomSection::data'):
                res.bad('lookup/%s/after-handover' % short(name), 'step %s looks up %s indices after the index map was taken out of the '
                        'emit context: the lookup finds nothing' % (short(name), sorted(g)), wh(at))
    # the code transform: what custom sections are handed describes the code section, so the step that writes the code
    # section (and fills cx.code_transform) comes before every apply_code_transform
    def writes_code(defs):
        for d in defs:
            b = F.mir.get(norm_path(d)) or F.mir.get(d)
            if not b:
                continue
            for blk in b['blocks']:
                t = blk['term']
                if t.get('t') == 'Call' and norm_path(callee_name(t) or '').endswith('wasm_encoder::CodeSection::new'):
                    return True
        return False
    code_steps = [i for i, x in enumerate(steps) if writes_code(x[2])]
    applies = [i for i, x in enumerate(info) if norm_path(x[1]).endswith('CustomSection::apply_code_transform')]
    if not code_steps:
        res.error('no emit step writes the code section')
    elif applies:
        def before(i, j):
            """step i is over before step j can run (same function: j is not followed by i on any path)"""
            (fi, bi), (fj, bj) = steps[i][4], steps[j][4]
            if fi == fj:
                return bi != bj and bi not in cfgs[fi][1].reach_after(bj)
            return i < j
        if all(before(c_, a) for c_ in code_steps for a in applies):
            res.ok('code-transform/after-code-section', {'code_section_step': short(info[max(code_steps)][1]), 'apply_steps': len(applies)})
        else:
            res.bad('code-transform/after-code-section', 'custom sections are handed the code transform before %s has written the code '
                    'section: the transform is still empty' % short(info[max(code_steps)][1]), wh(info[applies[0]][5]))
    res.note('steps: ' + ' -> '.join(short(x[1]) for x in info if x[2] or x[3]))
    return res
