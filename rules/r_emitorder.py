"""R-EMITORDER: in Module::emit_wasm an index is assigned before any section looks it up.

The ordered list of emit steps is read from the MIR of emit_wasm (straight-line
dominance order); for each step the instance-level call graph gives the index
spaces it assigns (IdsToIndices::push_* / set_data_index) and the ones it looks up
(get_*_index).  For every space K looked up by step s, every step that assigns K
must come no later than s, and at least one must exist.  The hand-over of the
index maps to custom sections (mem::take(cx.indices) -> CustomSection::data) must
come after every standard-section step."""
import re
from registry import RuleResult
from cfg import Cfg, callee_name
from heval import norm_path
from mirutil import where

EW = 'module::Module::emit_wasm'
PUSH = re.compile(r'^emit::IdsToIndices::(push_(\w+)|set_data_index)$')
GET = re.compile(r'^emit::IdsToIndices::get_(\w+)_index$')
SPACE = {'func': 'function'}


def spaces_of(defs):
    pushes, gets = set(), set()
    for d in defs:
        n = norm_path(d)
        m = PUSH.match(n)
        if m:
            pushes.add(SPACE.get(m.group(2), m.group(2)) if m.group(2) else 'data')
        m = GET.match(n)
        if m:
            gets.add(SPACE.get(m.group(1), m.group(1)))
    return pushes, gets


def steps_of(F):
    """ordered [(pos, callee, defs reachable, in_loop, (fn, bb))] for the non-macro calls of emit_wasm.  Calls to functions
    written in the same file that are not themselves an `Emit::emit` implementation (helpers into which a maintainer
    may split emit_wasm) are expanded in place, recursively, so the order is that of the leaf steps however the
    sequence is divided into functions.  Within one function calls are ordered by dominator depth (the sequence is
    straight-line apart from configuration switches)."""
    from heval import file_of
    insts = F.insts_of(EW)
    if len(insts) != 1:
        raise KeyError('emit_wasm instance')
    home = file_of(F, EW)
    out = []
    cfgs = {}

    def expandable(name, target_inst):
        n = norm_path(name)
        if n not in F.mir or file_of(F, n) != home or target_inst is None:
            return False
        if ' as emit::Emit>::emit' in n or n == EW:
            return False
        return True

    def walk(fn, inst, prefix, inloop0, depth):
        body = F.mir[fn]
        c = Cfg(body)
        cfgs[fn] = (body, c)
        calls = []
        for bb, t in c.calls():
            if t.get('mac') and 'log' in t['mac']:
                continue
            name = callee_name(t)
            if not name:
                continue
            calls.append((len(c.dom()[bb] or ()), bb, name))
        calls.sort()
        for k, (d, bb, name) in enumerate(calls):
            edges = F.calls_from_block(inst, bb)
            direct = [e[1] for e in edges if e[2] == 'call']
            pos = prefix + (k,)
            inloop = inloop0 or c.in_loop(bb)
            tgt = direct[0] if len(direct) == 1 else None
            if depth < 6 and expandable(name, tgt) and norm_path(F.instances[tgt]['def']) == norm_path(name):
                walk(norm_path(name), tgt, pos, inloop, depth + 1)
                continue
            start = [e[1] for e in edges if e[2] in ('call', 'virtual', 'dyn_impl', 'mention')]
            defs = F.reach_defs(start) if start else set()
            defs.add(name)
            out.append((pos, name, defs, inloop, (fn, bb)))
    walk(EW, insts[0], (), False, 0)
    out.sort(key=lambda x: x[0])
    return cfgs, out


def run(ctx):
    F = ctx.F
    res = RuleResult('R-EMITORDER', 'every index space is assigned before a section looks it up; index maps handed over last')
    res.floor = 10
    if EW not in F.mir:
        res.error('anchor lost: Module::emit_wasm')
        return res
    try:
        cfgs, steps = steps_of(F)
    except KeyError as e:
        res.error('emit_wasm not analysable: %s' % e)
        return res
    info = []
    for pos, name, defs, inloop, at in steps:
        p, g = spaces_of(defs)
        info.append((pos, name, p, g, inloop, at))
    short = lambda n: norm_path(n).replace('module::', '').replace(' as emit::Emit>::emit', '>').replace('<', '')
    wh = lambda at: where(cfgs[at[0]][0], at[1])
    for i, (pos, name, p, g, inloop, at) in enumerate(info):
        for k in sorted(g):
            key = 'lookup/%s/%s' % (short(name), k)
            writers = [(j, info[j]) for j in range(len(info)) if k in info[j][2]]
            if not writers:
                res.bad(key + '/no-writer', 'step %s looks up %s indices but no emit step assigns them' % (short(name), k), wh(at))
                continue
            late = [w for j, w in writers if j > i]
            early = [w for j, w in writers if j <= i]
            if late:
                res.bad(key, 'step %s looks up %s indices before step %s assigns them'
                        % (short(name), k, ', '.join(short(w[1]) for w in late)), wh(at))
            elif not early:
                res.bad(key, 'step %s looks up %s indices that are assigned only later' % (short(name), k), wh(at))
            else:
                res.ok(key, {'step': short(name), 'looks_up': k, 'assigned_by': [short(w[1]) for w in early]})
    # hand-over: take(cx.indices) after every pushing step, before every CustomSection::data
    handover = None
    for i, (pos, name, p, g, inloop, at) in enumerate(info):
        if norm_path(name) == 'std::mem::take':
            body = cfgs[at[0]][0]
            t = body['blocks'][at[1]]['term']
            dest = t['dest'][0]
            if 'IdsToIndices' in body['locals'][dest]['ty']:
                handover = i
    datas = [i for i, x in enumerate(info) if norm_path(x[1]).endswith('CustomSection::data')]
    if handover is None:
        if datas:
            res.bad('handover/missing', 'custom sections are serialised but the emit-time index map is never handed over')
    else:
        pushers = [(i, x[1]) for i, x in enumerate(info) if x[2]]
        bad = [short(n) for i, n in pushers if i > handover]
        if bad:
            res.bad('handover/early', 'the index map is handed to custom sections before %s assigned its indices' % bad,
                    wh(info[handover][5]))
        else:
            res.ok('handover/after-all-sections', {'handover_after': [short(n) for _, n in pushers]})
        for d in datas:
            if handover < d:
                res.ok('handover/before-custom-data', {'custom_data_at': wh(info[d][5])})
            else:
                res.bad('handover/before-custom-data', 'CustomSection::data runs before the index map is complete', wh(info[d][5]))
    res.note('steps: ' + ' -> '.join(short(x[1]) for x in info if x[2] or x[3]))
    return res
