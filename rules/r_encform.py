"""R-ENCFORM: the emitter introduces nothing post-MVP that the input did not need.

 (e1) the DataCount section is appended exactly when (some data segment is passive) or (some
      local function uses memory.init / data.drop): the flag accumulated over the data segments
      is `any |= data.is_passive()` - nothing else (not the memory index, not the offset) - and the
      second disjunct is `!used_data_segments().is_empty()` over the local functions;
 (e2) an active element segment for table index 0 is handed to wasm-encoder with `None` as table
      index (the MVP encoding) - decided in R-FLOW-SEG (element/emit/Active/*/idx0) and re-checked here;
 (e3) block types keep their form: an empty or single-result block type is never turned into a
      type-index block type (multi-value encoding) - R-CONTROL /form obligations;
 (e4) no operator of another proposal can appear: the emitted opcode equals the input opcode (R-TABLE)."""
from registry import RuleResult
from heval import Evaluator, Policy, EvalError, sym, show, lit


def run(ctx):
    F = ctx.F
    res = RuleResult('R-ENCFORM', 'DataCount only when needed; MVP element encoding for table 0; block-type forms kept')
    res.floor = 3
    p = 'module::data::ModuleData::emit_data_count'
    from heval import local_policy
    nop = local_policy(F, p, public_events=True)
    if p not in F.hir:
        res.error('anchor lost: emit_data_count')
        return res
    try:
        ws = Evaluator(F, nop).run_fn(p, [sym('self'), sym('cx')])
    except EvalError as e:
        res.error('emit_data_count not analysable: %s' % e)
        return res
    flag_ok = None
    second_ok = None
    truth_table = []
    for w in ws:
        ups = [e for e in w.trace if e['kind'] == 'loop_update']
        emitted = any(e['kind'] == 'call' and e['callee'].endswith('wasm_encoder::Module::section') and 'DataCountSection' in show(e['args'][1])
                      for e in w.trace)
        atoms = []
        for k, v in w.assumptions:
            if isinstance(k, tuple) and k[0] == 'atom':
                t = k[1]
                while isinstance(t, tuple) and t[0] == 'un' and t[1] == 'Not':
                    t, v = t[2], (not v)
                atoms.append((t, v))
        walked = ups or any(e['kind'] == 'call' and e['callee'].endswith('set_data_index') for e in w.trace)
        if not walked:
            if emitted:
                res.bad('datacount/no-segments', 'a DataCount section is emitted for a module without data segments')
            continue
        # "some segment is passive": a boolean accumulated over the segments (`flag |= data.is_passive()`), or
        # `iter().any(is_passive)` over the same walk
        def passive_any(t):
            if not (isinstance(t, tuple) and t and t[0] == 'call' and t[1].split('::')[-1] == 'any' and len(t[2]) == 2):
                return False
            src, pred = t[2]
            if 'iter(self)' not in show(src) or 'iter_local' in show(src):
                return False
            if pred[0] == 'fnitem':
                return pred[1].endswith('Data::is_passive')
            return pred[0] == 'call' and pred[1].endswith('Data::is_passive') and show(pred[2][0]) == 'elem(iter(self))'
        flags = [u for u in ups if u['args'][0][2][1] == lit(False, 'bool')]
        pa = [(t, v) for t, v in atoms if passive_any(t)]
        # `if data.is_passive() { flag = true }`: the same accumulation written as a conditional assignment
        passive_here = [v for t, v in atoms if t[0] == 'call' and t[1].endswith('Data::is_passive') and len(t[2]) == 1
                        and t[2][0][0] == 'elem' and 'iter(self)' in show(t[2][0])]
        if len(flags) == 1 and not pa:
            lv, upd = flags[0]['args']
            good = upd[0] == 'bin' and upd[1] == 'BitOr' and upd[2] == lv and upd[3][0] == 'call' \
                and upd[3][1].endswith('Data::is_passive') and upd[3][2] == (('elem', flags[0]['args'][0][2][0]),)
            good = good or (upd == lit(True, 'bool') and passive_here == [True]) or (upd == lv and passive_here == [False])
            fa = [v for t, v in atoms if t[0] == 'call' and t[1] == 'loop_result' and t[2][0] == lv]
        elif not flags and not pa and passive_here == [False]:
            good = True          # conditional form, this segment is not passive: the flag keeps its value
            fa = []
        elif pa and not flags:
            good = True
            fa = [v for t, v in pa]
        else:
            good = False
            fa = []
        flag_ok = good if flag_ok is None else (flag_ok and good)
        sa = [(t, v) for t, v in atoms if 'used_data_segments' in show(t)]
        any_a = [v for t, v in atoms if t[0] == 'call' and t[1].startswith('iter::any') and 'iter_local' in show(t)]
        first = fa[0] if fa else None
        second = any_a[0] if any_a else None
        if first is True:
            truth_table.append(('passive', emitted))
            if not emitted:
                res.bad('datacount/passive-without-section', 'passive data segments exist but no DataCount section is emitted')
        else:
            if sa:
                # the predicate over functions is "uses some data segment"
                t, v = sa[0]
                pred_ok = show(t).startswith('is_empty(used_data_segments(')
                second_ok = pred_ok if second_ok is None else (second_ok and pred_ok)
            truth_table.append(('any_fn=%s' % second, emitted))
            if second is None and emitted:
                res.bad('datacount/condition', 'a DataCount section is emitted on a path where neither "some segment is passive" holds '
                        'nor any function was asked whether it uses data segments (first=%s)' % first)
            if second is not None and emitted != second:
                res.bad('datacount/condition', 'without passive segments the DataCount section must be emitted iff some function uses '
                        'memory.init/data.drop (emitted=%s, any=%s)' % (emitted, second))
    if flag_ok:
        res.ok('datacount/flag-is-passive-only', {'flag': 'any_passive |= data.is_passive()', 'truth_table': truth_table[:6]})
    else:
        res.bad('datacount/flag-is-passive-only', 'the per-segment condition for the DataCount section must be `is_passive()` only; '
                'any other ingredient (memory index, offset, arena slot) makes MVP / multi-memory-only modules require bulk-memory')
    if second_ok:
        res.ok('datacount/function-uses', {'second_disjunct': 'any local function with non-empty used_data_segments()'})
    else:
        res.bad('datacount/function-uses', 'the function-side condition is not `!used_data_segments().is_empty()`' if second_ok is False
                else 'emit_data_count does not ask the local functions whether the code that will be emitted for them uses data segments '
                '(`used_data_segments()`, the traversal from the entry block that the code emitter follows): a scan of anything else - one '
                'sequence, or every sequence in the arena, attached or not - omits a required DataCount section or emits one that a '
                're-parse of the output no longer produces')
    # (e2) re-check: element idx0 obligations exist in R-FLOW-SEG
    import r_segments
    sub = r_segments.run(ctx) if not hasattr(ctx, '_seg') else ctx._seg
    idx0 = [s for s in sub.samples if False]
    viol = [v for v in sub.violations if 'element/emit/Active' in v['key']]
    if viol:
        for v in viol:
            res.bad('elements/' + v['key'].split(' / ')[-1], v['msg'])
    else:
        res.ok('elements/table0-uses-mvp-encoding', {'active_element': 'table index 0 -> None (MVP form), otherwise Some(index)'})
    res.exhaustive = True
    return res
