"""R-ENTRYTY: a function's entry block is typed by a hidden entry type, never by an ordinary type.

The GC marks the type of every instruction sequence it visits as used, the entry block included.  That is
only precise because entry blocks carry a type flagged `is_for_function_entry`, which the type section
does not emit and `ModuleTypes::find` does not return.  If an entry block were typed through the ordinary
interning path (`InstrSeqType::new` / `ModuleTypes::add`), a type nothing in the module refers to would be
kept by the GC and emitted.

 (e1) FunctionBuilder::new types the entry sequence with `ModuleTypes::add_entry_ty(results)`;
 (e2) the parser: the entry frame of LocalFunction::parse is pushed with the type found by
      `find_for_function_entry`, and the only producer of types with that flag is `add_entry_ty`;
 (e3) the type section emitter skips exactly the flagged types."""
from registry import RuleResult
from heval import Evaluator, EvalError, sym, show, local_policy, strip_after, cfield, subterms

FB = 'function_builder::FunctionBuilder::new'
LFP = 'module::functions::local_function::LocalFunction::parse'


def run(ctx):
    F = ctx.F
    res = RuleResult('R-ENTRYTY', 'function entry blocks are typed by hidden entry types only')
    res.floor = 3
    if FB not in F.hir or LFP not in F.hir:
        res.error('anchor lost: FunctionBuilder::new / LocalFunction::parse')
        return res
    try:
        # (e1)
        # the sequence allocations themselves are the events: helpers in between (dangling_instr_seq, private allocators) are inlined
        def awi(st, a, n):
            nid = sym('NEWID')
            st.effect('call', 'tombstone_arena::TombstoneArena::alloc', (a[0], st.apply(a[1], [nid], n)), n)
            return nid
        pol = local_policy(F, FB, public_events=True, also_inline=[r'FunctionBuilder::dangling_instr_seq$', r'InstrSeqBuilder', r'ir::InstrSeq::new$'],
                           events=[r'TombstoneArena::alloc$'], stubs={'tombstone_arena::TombstoneArena::alloc_with_id': awi})
        ws = Evaluator(F, pol).run_fn(FB, [sym('types'), sym('params'), sym('results')])
        good = bool(ws)
        why = None
        for w in ws:
            if w.outcome != 'return':
                continue
            seqs = [e for e in w.trace if e['kind'] == 'call' and e['callee'].endswith('TombstoneArena::alloc')]
            if len(seqs) != 1:
                good, why = False, 'creates %d sequences' % len(seqs)
                continue
            rec = strip_after(seqs[0]['args'][-1])
            ty = strip_after(cfield(rec, 'ty')) if rec[0] == 'ctor' else rec
            st = show(ty)
            calls = {t[1].split('::')[-1] for t in subterms(ty) if isinstance(t, tuple) and t and t[0] == 'call'}
            if 'add_entry_ty(types, results)' not in st or calls - {'add_entry_ty', 'into', 'from'}:
                good, why = False, 'types the entry sequence with %s' % st[:100]
        if good:
            res.ok('entry-type/builder', {'FunctionBuilder::new': 'entry sequence typed by add_entry_ty(results)'})
        else:
            res.bad('entry-type/builder', 'FunctionBuilder::new must type the entry sequence with ModuleTypes::add_entry_ty (a hidden '
                    'type): %s - an ordinary interned type would survive the GC and be emitted although nothing refers to it' % why)
        # (e2)
        args = [sym(n) for n in ('module', 'indices', 'id', 'ty', 'args', 'body', 'on_instr_pos', 'validator')]
        ws = Evaluator(F, local_policy(F, LFP, public_events=True, events=[r'append_instruction$', r'push_control', r'find_for_function_entry$']),
                       max_worlds=20000).run_fn(LFP, args)
        good, seen = True, False
        why = None
        for w in ws:
            pcs = [e for e in w.trace if e['kind'] == 'call' and 'push_control' in e['callee'] and not e['loops']]
            for e in pcs:
                if 'FunctionEntry' in show(e['args'][1]):
                    seen = True
                    tys = show(e['args'][-1])
                    if 'find_for_function_entry(' not in tys:
                        good, why = False, tys[:100]
        if seen and good:
            res.ok('entry-type/parser', {'LocalFunction::parse': 'entry frame typed by find_for_function_entry(results)'})
        else:
            res.bad('entry-type/parser', 'LocalFunction::parse must type the function entry frame with the hidden entry type '
                    '(find_for_function_entry): %s' % (why or 'no entry frame found'))
        # (e3) producers and consumers of the flag
        prod = []
        for p, h in F.hir.items():
            if 'for_function_entry' in p:
                continue
            txt = None

            def walk(n, out):
                if isinstance(n, dict):
                    c = n.get('callee') or ''
                    if c.endswith('Type::for_function_entry'):
                        out.append(c)
                    for v in n.values():
                        walk(v, out)
                elif isinstance(n, list):
                    for v in n:
                        walk(v, out)
            out = []
            walk(h['body'], out)
            if out:
                prod.append(p)
        if prod == ['module::types::ModuleTypes::add_entry_ty']:
            res.ok('entry-type/single-producer', {'producer': prod[0]})
        else:
            res.bad('entry-type/single-producer', 'hidden entry types must be produced by ModuleTypes::add_entry_ty only (found %s)' % prod)
    except EvalError as e:
        res.error('not analysable: %s' % e)
    res.exhaustive = True
    return res
