"""R-FEATURES: the wasmparser feature set is what the property says, and the same
value configures both the parser and the validator."""
from registry import RuleResult
from heval import Evaluator, Policy, sym, show, norm_path, strip_after
from mirutil import find_fn, flow_locals, calls_to, arg_locals, where

UNSTABLE_EXPECTED = {'MULTI_MEMORY', 'MEMORY64', 'THREADS'}   # named by property C05/C14


def flag_set(t):
    """interpret a term of type WasmFeatures as (base marker or None, set of flag names): empty(), named flag constants,
    unions (`|`, `union`), and the insert/remove history recorded as after(..) wrappers are understood"""
    if not isinstance(t, tuple) or not t:
        raise ValueError('not a feature term: %r' % (t,))
    k = t[0]
    if k == 'call':
        name = t[1].split('::')[-1]
        if t[1] in ('after', 'loop_carried', 'loop_result'):
            return flag_set(t[2][0] if t[1] == 'after' else t[2][1])
        if not t[2]:
            if name == 'empty':
                return 'empty', set()
            if name.isupper() or name.replace('_', '').isupper():
                return None, {name}
            return name, set()           # all() / default(): an unknown, non-empty base
        if name in ('union',) and len(t[2]) == 2:
            b1, f1 = flag_set(t[2][0])
            b2, f2 = flag_set(t[2][1])
            return (b1 if b1 not in (None, 'empty') else b2 if b2 is not None else b1), f1 | f2
        raise ValueError('unsupported feature operation %s' % name)
    if k == 'bin' and t[1] == 'BitOr':
        b1, f1 = flag_set(t[2])
        b2, f2 = flag_set(t[3])
        base = b1 if b1 not in (None, 'empty') else (b2 if b2 not in (None,) else b1)
        return base, f1 | f2
    raise ValueError('unsupported feature term %s' % show(t)[:80])


def feature_sets(F):
    """(always_enabled, unstable_only, base, lost) extracted by evaluating get_wasmparser_wasm_features for both values of
    only_stable_features.  The set may be assembled by insert() calls on empty(), by `|` of flag constants, through
    helpers - only the resulting set matters."""
    p = find_fn(F, 'ModuleConfig::get_wasmparser_wasm_features', 'hir')
    if p is None:
        raise KeyError('get_wasmparser_wasm_features not found')
    ev = Evaluator(F, Policy(effects=[r'WasmFeatures>::(insert|remove|set|toggle)$']))
    ws = ev.run_fn(p, [sym('self')])
    stable, unstable, base = None, None, None
    others = []
    for w in ws:
        if w.outcome != 'return':
            raise ValueError('feature function has a %s world' % w.outcome)
        b, flags = flag_set(strip_after(w.value) if w.value[0] == 'call' and w.value[1] == 'after' else w.value)
        for e in w.trace:
            op = e['callee'].split('::')[-1]
            _, fl = flag_set(e['args'][1])
            if op == 'insert':
                flags |= fl
            elif op == 'remove':
                flags -= fl
            else:
                raise ValueError('unsupported flag operation ' + op)
        base = ('call', 'wasmparser::WasmFeatures::empty', ()) if b in ('empty', None) else ('call', str(b), ())
        asm = [(show(a[0][1]) if a[0][0] == 'atom' else show(a[0]), a[1]) for a in w.assumptions]
        if asm == [('self.only_stable_features', True)]:
            stable = flags
        elif asm == [('self.only_stable_features', False)]:
            unstable = flags
        else:
            others.append(asm)
    if stable is None or unstable is None or others:
        raise ValueError('feature set depends on something other than only_stable_features: %r' % others)
    return stable, unstable - stable, base, stable - unstable


def run(ctx):
    F = ctx.F
    res = RuleResult('R-FEATURES', 'feature set assembled from the config; same value reaches Parser and Validator')
    res.floor = 4
    try:
        stable, unstable_only, base, lost = feature_sets(F)
    except (KeyError, ValueError) as e:
        res.error(str(e))
        return res
    if show(base).startswith('empty('):
        res.ok('base/empty', {'base': show(base)})
    else:
        res.bad('base', 'feature set does not start from WasmFeatures::empty(): %s' % show(base))
    if unstable_only == UNSTABLE_EXPECTED and not lost:
        res.ok('unstable-only', {'always': sorted(stable), 'unless_only_stable': sorted(unstable_only)})
    else:
        res.bad('unstable-only/' + ','.join(sorted(unstable_only ^ UNSTABLE_EXPECTED) + sorted(lost)),
                'only_stable_features must remove exactly %s; it removes %s (and adds %s)'
                % (sorted(UNSTABLE_EXPECTED), sorted(unstable_only), sorted(lost)))
    # same value reaches Validator::new_with_features and Parser::set_features in Module::parse
    mp = find_fn(F, 'module::Module::parse')
    if mp is None:
        res.error('Module::parse not found')
        return res
    from mirinline import inline_local
    body = inline_local(F, mp)
    src = calls_to(body, lambda n: n.endswith('get_wasmparser_wasm_features'))
    if len(src) != 1:
        res.bad('parse/feature-source', 'Module::parse must obtain the feature set exactly once (found %d)' % len(src))
        return res
    held = flow_locals(body, [src[0][1]['dest'][0]])
    for sink, idx, key in (('Validator::new_with_features', 0, 'validator'), ('Parser::set_features', 1, 'parser')):
        cs = calls_to(body, lambda n, s=sink: n.endswith(s))
        if not cs:
            res.bad('parse/' + key, 'Module::parse never calls %s' % sink)
            continue
        for bb, t in cs:
            al = arg_locals(t)
            if idx < len(al) and al[idx] in held:
                res.ok('parse/' + key, {'call': sink, 'at': where(body, bb)})
            else:
                res.bad('parse/' + key, '%s is not configured with the value of get_wasmparser_wasm_features()' % sink,
                        where(body, bb))
    # every other construction of a Validator / Parser feature set in the crate
    for p, b in F.mir.items():
        for bb, t in calls_to(b, lambda n: n.endswith('Validator::new') or n.endswith('WasmFeatures::default')
                              or n.endswith('WasmFeatures>::all')):
            res.bad('other-validator/' + p, 'a validator/feature set is built without the configured features', where(b, bb))
    return res
