"""R-FLOW: entity records carry every attribute from the section parsers to the
section emitters.

For memories, tables, globals (local and imported), imports, exports, data and
element segments the parser (Module::parse_*) and the emitter (impl Emit) are both
evaluated symbolically; the record the parser allocates is substituted into the
wasm-encoder value the emitter builds, which yields every output field as a term
over the fields of the wasmparser item.  That term is compared with the field map
of wasm-encoder's own reencoder (memory_type / table_type / global_type /
entity_type / export_kind): same field, no constant, no swap, indices through the
index space of their kind, enum variants by name."""
import re
from registry import RuleResult
from heval import EvalError, sym, show, cfield, lit
from adtwalk import peel
import oracle
import flowlib as fl
from flowlib import worlds_of, allocs, section_calls, subst_root, record_roots, world_agrees, cond_text
from r_table import Canon, strip_tys
from r_control import valtype_name
from r_features import feature_sets

ITEM_ENTRY = ('ok', ('elem', sym('section')))
ITEM_CANON = ('elem', sym('section'))   # Canon strips the success-payload wrappers


def out_struct_fields(t):
    return dict(t[3]) if t[0] == 'ctor' else {}


def input_variant(P, item_field_term):
    """canonical name of the wasmparser value/ref type assumed for `item_field_term` in parse world P"""
    names = []
    cur = item_field_term
    for k, v in P.assumptions:
        if isinstance(k, tuple) and k and k[0] == 'atom':
            t = k[1]
            if v is True and t[0] == 'bin' and t[1] == 'Eq' and t[3][0] == 'call' and t[3][1].startswith('wasmparser::RefType::'):
                r, p = peel(t[2])
                if show(item_field_term) in show(t[2]):
                    names.append(('REF', t[3][1].split('::')[-1]))
            continue
        if k == cur and isinstance(v, tuple) and v[0] == 'ctor':
            names.append(('V', v[2]))
    if not names:
        return None
    if names[0] == ('V', 'Ref') or names[0][0] == 'REF':
        refs = [n for n in names if n[0] == 'REF']
        if refs:
            return 'REF:' + refs[0][1].upper().replace('REF', '')
        return None
    return names[0][1].upper()


def out_type_name(t):
    """wasm_encoder ValType / RefType term -> canonical name"""
    if t[0] == 'call' and t[1].startswith('wasm_encoder::RefType::'):
        return 'REF:' + t[1].split('::')[-1].upper().replace('REF', '')
    return valtype_name(t)


def check_struct(res, key, S, maps, P, enabled, exempt_const=()):
    """S: wasm_encoder struct term already substituted; maps: out_field -> (in_field, conv)"""
    got = out_struct_fields(S)
    sname = S[2]
    if set(got) != set(maps):
        res.bad(key + '/shape', '%s is built with fields %s, wasm-encoder defines %s' % (sname, sorted(got), sorted(maps)))
        return
    item = None
    for of, (inf, conv) in sorted(maps.items()):
        t = got[of]
        k = '%s/%s' % (key, of)
        if t[0] == 'lit' or (t[0] == 'ctor' and not t[3] and t[1].endswith('Option')):
            if of in exempt_const:
                res.ok(k + '/const-exempt', {'field': sname + '.' + of, 'constant': show(t), 'exempt': exempt_const[of]}, nontrivial=False)
            else:
                res.bad(k, '%s.%s is the constant %s: the parsed `%s` is not carried through' % (sname, of, show(t), inf))
            continue
        if conv in ('ref_type', 'val_type'):
            # locate the input item through the other fields later; here compare names
            if item is None:
                # infer from a sibling
                for of2, (inf2, conv2) in maps.items():
                    if conv2 is None and got[of2][0] == 'field':
                        item = got[of2][1]
                        break
            src = ('field', item, inf) if item is not None else None
            want = input_variant(P, src) if src is not None else None
            have = out_type_name(t)
            if want is not None and have == want:
                res.ok(k + '/' + want, {'field': sname + '.' + of, 'from': inf, 'type': want})
            else:
                res.bad(k + '/' + str(want), '%s.%s: input %s `%s` is re-emitted as %s' % (sname, of, inf, want, have or show(t)))
            continue
        if t[0] != 'field' or t[2] != inf:
            r, p = peel(t)
            res.bad(k, '%s.%s must carry the parsed `%s`; it carries %s' % (sname, of, inf, show(t)))
            continue
        if item is None:
            item = t[1]
        elif t[1] != item:
            res.bad(k, '%s.%s is taken from a different item (%s) than its siblings (%s)' % (sname, of, show(t[1]), show(item)))
            continue
        res.ok(k, {'field': sname + '.' + of, 'from': show(t)})


def run(ctx):
    F = ctx.F
    res = RuleResult('R-FLOW', 'entity records carry every attribute from parse_* to the Emit impls')
    res.floor = 60
    try:
        rmaps = oracle.record_maps('/repo')
        vmaps = oracle.variant_maps('/repo')
        stable, unstable_only, _, _ = feature_sets(F)
    except Exception as e:
        res.error('oracle extraction failed: %r' % (e,))
        return res
    enabled = stable | unstable_only
    exempt_tbl = {}
    if 'SHARED_EVERYTHING_THREADS' not in enabled:
        exempt_tbl['shared'] = 'shared tables need shared-everything-threads, which is not in the enabled feature set'
    try:
        check_typed(F, res, rmaps, enabled, exempt_tbl)
        check_imports(F, res, rmaps, vmaps, enabled, exempt_tbl)
        check_exports(F, res, vmaps)
    except (EvalError, KeyError) as e:
        res.error('not analysable: %s' % e)
    res.exhaustive = True
    return res


LOCAL = [
    # kind, parse fn, arena, emit impl, section method, wasm_encoder struct, arg position of the struct
    ('memory', 'parse_memories', 'memories', '<module::memories::ModuleMemories as emit::Emit>::emit', 'MemorySection::memory', 'MemoryType', 1),
    ('table', 'parse_tables', 'tables', '<module::tables::ModuleTables as emit::Emit>::emit', 'TableSection::table', 'TableType', 1),
    ('global', 'parse_globals', 'globals', '<module::globals::ModuleGlobals as emit::Emit>::emit', 'GlobalSection::global', 'GlobalType', 1),
]
OPAQUE_CONSTEXPR = ('const_expr::ConstExpr::eval', 'const_expr::ConstExpr::to_wasmencoder_type')


def check_typed(F, res, rmaps, enabled, exempt_tbl):
    pol = fl.policy(no_inline=OPAQUE_CONSTEXPR)
    for kind, pfn, arena, eimpl, meth, sname, pos in LOCAL:
        _, pws = worlds_of(F, pfn, [sym('self'), sym('section'), sym('ids')], pol, key='flow')
        _, ews = worlds_of(F, eimpl, [sym('self'), sym('cx')], pol, key='flow')
        n_pairs = 0
        for P in pws:
            if P.outcome != 'return':
                continue
            recs = [r for a, r, e in allocs(P) if a == arena]
            if len(recs) != 1:
                if recs or not is_err(P.value):
                    res.bad('%s/local/alloc' % kind, '%s allocates %d %s records for one section entry [%s]'
                            % (pfn, len(recs), kind, cond_text(P)[:200]))
                continue
            rec = recs[0]
            for E in ews:
                if E.outcome != 'return':
                    continue
                calls = [c for c in section_calls(E) if c['callee'].endswith(meth)]
                if not calls:
                    continue
                S = calls[0]['args'][pos]
                roots = [r for r in record_roots(S)]
                if len(roots) != 1:
                    res.error('%s: cannot identify the record in %s' % (eimpl, show(S)))
                    continue
                if not world_agrees(E, roots[0], rec):
                    continue
                n_pairs += 1
                S2 = subst_root(S, roots[0], rec)
                check_struct(res, '%s/local' % kind, S2, rmaps[sname], P, enabled,
                             exempt_tbl if sname == 'TableType' else ())
                if kind == 'global':
                    init = subst_root(calls[0]['args'][2], roots[0], rec)
                    good = False
                    if init[0] == 'call' and init[1].endswith('ConstExpr::to_wasmencoder_type'):
                        a = init[2][0]
                        while a[0] == 'ok':
                            a = a[1]
                        if a[0] == 'call' and a[1].endswith('ConstExpr::eval') and a[2][0][0] == 'field' and a[2][0][2] == 'init_expr' \
                                and show(a[2][0][1]).startswith('elem(section)'):
                            good = True
                    if good:
                        res.ok('global/local/init', {'init': show(init)})
                    else:
                        res.bad('global/local/init', 'the initialiser of a local global must be eval(init_expr) re-encoded: %s' % show(init))
        if n_pairs == 0:
            res.bad('%s/local/unpaired' % kind, 'no emit path of %s matches the records %s allocates' % (eimpl.split(' as ')[0][1:], pfn))


IMPORT_KINDS = {'Memory': ('memories', 'MemoryType'), 'Table': ('tables', 'TableType'), 'Global': ('globals', 'GlobalType'),
                'Func': ('funcs', None)}


def check_imports(F, res, rmaps, vmaps, enabled, exempt_tbl):
    pol = fl.policy(no_inline=OPAQUE_CONSTEXPR)
    _, pws = worlds_of(F, 'parse_imports', [sym('self'), sym('section'), sym('ids')], pol, key='flow')
    _, ews = worlds_of(F, '<module::imports::ModuleImports as emit::Emit>::emit', [sym('self'), sym('cx')], pol, key='flow')
    emap = vmaps['entity_type']
    seen_kinds = set()
    for P in pws:
        tr = [v[2] for k, v in P.assumptions if isinstance(v, tuple) and v[0] == 'ctor' and v[1] == 'wasmparser::TypeRef']
        if not tr:
            continue
        tkind = tr[0]
        if P.outcome == 'panic':
            if tkind == 'Tag' and 'EXCEPTIONS' not in enabled:
                res.ok('import/Tag/rejected-by-validator', nontrivial=False)
            else:
                res.bad('import/%s/panic' % tkind, 'parse_imports panics on a %s import' % tkind)
            continue
        if P.outcome != 'return':
            continue
        if tkind not in IMPORT_KINDS:
            res.bad('import/%s/unhandled' % tkind, 'no analysis for import kind ' + tkind)
            continue
        arena, sname = IMPORT_KINDS[tkind]
        al = allocs(P)
        ent = [r for a, r, e in al if a == arena]
        imp = [r for a, r, e in al if a == 'imports']
        if len(ent) != 1 or len(imp) != 1:
            # worlds that bail out with Err (unsupported ref type) allocate nothing
            if not al and is_err(P.value):
                continue
            res.bad('import/%s/alloc' % tkind, 'an imported %s must allocate one entity record and one import record '
                    '(allocated %s)' % (tkind, [a for a, _, _ in al]))
            continue
        ent, imp = ent[0], imp[0]
        ik = cfield(imp, 'kind')
        want_variant = {'Func': 'Function'}.get(tkind, tkind)
        if ik[0] != 'ctor' or ik[2] != want_variant:
            res.bad('import/%s/kind' % tkind, 'a %s import is recorded as %s' % (tkind, show(ik)))
            continue
        paired = False
        for E in ews:
            if E.outcome != 'return':
                continue
            calls = [c for c in section_calls(E) if c['callee'].endswith('ImportSection::import')]
            if not calls:
                continue
            ekind = [v[2] for k, v in E.assumptions if isinstance(v, tuple) and v[0] == 'ctor' and v[1] == 'module::imports::ImportKind']
            if not ekind or ekind[0] != want_variant:
                continue
            args = calls[0]['args']
            # roots: the import record and the entity record
            iroots = [r for r in record_roots(args[1])]
            if len(iroots) != 1:
                res.error('cannot identify the import record in ImportSection::import')
                continue
            I = iroots[0]
            eroots = [r for r in record_roots(args[3]) if r != I and r[0] == 'call' and r[1] == 'index']
            if len(eroots) != 1:
                res.error('cannot identify the entity record in %s' % show(args[3])[:200])
                continue
            if not agrees_any(E, [eroots[0]], I, imp, ent):
                continue
            ety = subst_root(args[3], eroots[0], ent)
            paired = True
            seen_kinds.add(tkind)
            out = subst_root(ety, I, imp)
            mod = subst_root(args[1], I, imp)
            nam = subst_root(args[2], I, imp)
            for nm, t in (('module', mod), ('name', nam)):
                if t == ('field', ITEM_ENTRY, nm):
                    res.ok('import/%s/%s' % (tkind, nm), {'import': tkind, nm: show(t)})
                else:
                    res.bad('import/%s/%s' % (tkind, nm), 'the %s of a %s import must be the parsed one; got %s' % (nm, tkind, show(t)))
            if out[0] != 'ctor' or out[2] != emap.get(tkind):
                res.bad('import/%s/entity' % tkind, 'a %s import is emitted as %s' % (tkind, show(out)[:120]))
                continue
            payload = cfield(out, '0')
            if tkind == 'Func':
                c = Canon(res)
                g = c.canon(payload)
                want = ('rt', 'type', ('field', ('field', ITEM_CANON, 'ty'), 'Func.0'))
                if strip_tys(g) == strip_tys(want):
                    res.ok('import/Func/type', {'import': 'Func', 'type_index': show(payload)})
                else:
                    res.bad('import/Func/type', 'the type index of an imported function must round-trip through the type index '
                            'space; got %s %s' % (show(payload), c.problems))
                continue
            check_struct(res, 'import/%s' % tkind, payload, rmaps[sname], P, enabled, exempt_tbl if sname == 'TableType' else ())
        if not paired and ent is not None:
            res.bad('import/%s/unpaired' % tkind, 'ModuleImports::emit has no path for an imported %s as parse_imports records it' % tkind)
    for k in ('Func', 'Table', 'Memory', 'Global'):
        if k not in seen_kinds and not any(('import/%s/' % k) in v['key'] for v in res.violations):
            res.bad('import/%s/missing' % k, 'import kind %s is not carried from parse_imports to ModuleImports::emit' % k)


def is_err(v):
    return isinstance(v, tuple) and v and v[0] == 'ctor' and v[2] == 'Err'


def agrees_any(E, roots, I, imp, ent):
    """emit-world assumptions on the entity record (keyed through the import record) agree with the parsed entity"""
    for k, v in E.assumptions:
        if isinstance(k, tuple) and k and k[0] == 'atom':
            continue
        if not (isinstance(v, tuple) and v and v[0] == 'ctor'):
            continue
        r = fl.rec_root(k)
        if r in roots and k != r:
            val = subst_root(k, r, ent)
            if val[0] == 'ctor' and val[2] != v[2]:
                return False
    return True


EXPORT_SPACE = {'Func': 'function', 'Table': 'table', 'Memory': 'memory', 'Global': 'global'}


def check_exports(F, res, vmaps):
    pol = fl.policy()
    _, pws = worlds_of(F, 'parse_exports', [sym('self'), sym('section'), sym('ids')], pol, key='flow')
    _, ews = worlds_of(F, '<module::exports::ModuleExports as emit::Emit>::emit', [sym('self'), sym('cx')], pol, key='flow')
    xmap = vmaps['export_kind']
    seen = set()
    for P in pws:
        ek = [v[2] for k, v in P.assumptions if isinstance(v, tuple) and v[0] == 'ctor' and v[1] == 'wasmparser::ExternalKind']
        if not ek:
            continue
        kind = ek[0]
        if P.outcome != 'return':
            if kind == 'Tag':
                res.ok('export/Tag/rejected', nontrivial=False)
            else:
                res.bad('export/%s/panic' % kind, 'parse_exports panics on a %s export' % kind)
            continue
        recs = [r for a, r, e in allocs(P) if a == 'exports']
        if len(recs) != 1:
            if kind == 'Tag' or (not recs and is_err(P.value)):
                continue
            res.bad('export/%s/alloc' % kind, 'parse_exports allocates %d export records for one entry' % len(recs))
            continue
        rec = recs[0]
        for E in ews:
            if E.outcome != 'return':
                continue
            calls = [c for c in section_calls(E) if c['callee'].endswith('ExportSection::export')]
            if not calls:
                continue
            args = calls[0]['args']
            roots = list(record_roots(args[1]))
            if len(roots) != 1 or not world_agrees(E, roots[0], rec):
                continue
            name = subst_root(args[1], roots[0], rec)
            k2 = args[2]
            idx = subst_root(args[3], roots[0], rec)
            if name == ('field', ITEM_ENTRY, 'name'):
                res.ok('export/%s/name' % kind, {'export': kind, 'name': show(name)})
            else:
                res.bad('export/%s/name' % kind, 'export name is not the parsed one: %s' % show(name))
            if k2[0] == 'ctor' and k2[2] == xmap.get(kind):
                res.ok('export/%s/kind' % kind, {'export': kind, 'emitted_kind': k2[2]})
            else:
                res.bad('export/%s/kind' % kind, 'a %s export is emitted with kind %s' % (kind, show(k2)))
            c = Canon(res)
            g = c.canon(idx)
            want = ('rt', EXPORT_SPACE.get(kind), ('field', ITEM_CANON, 'index'))
            if strip_tys(g) == strip_tys(want):
                res.ok('export/%s/index' % kind, {'export': kind, 'index': show(idx)})
            else:
                res.bad('export/%s/index' % kind, 'the index of a %s export must round-trip through the %s index space; got %s %s'
                        % (kind, EXPORT_SPACE.get(kind), show(idx), '; '.join(c.problems)))
            seen.add(kind)
    for k in EXPORT_SPACE:
        if k not in seen and not any(('export/%s/' % k) in v['key'] for v in res.violations):
            res.bad('export/%s/missing' % k, 'export kind %s is not carried from parse_exports to ModuleExports::emit' % k)
