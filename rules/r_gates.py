"""R-GATES: each configuration switch gates exactly its own section; producers
merge replaces by name; the parse callback runs once, last.

 (g1) Module::emit_wasm is evaluated with nothing inlined, so every world is a
      combination of the boolean switches and its trace is the list of top-level
      steps.  emit_name_section runs iff !skip_name_section, producers.emit iff
      !skip_producers_section, debug.emit iff generate_dwarf, apply_code_transform
      iff preserve_code_transform; every other step is the same in all worlds.
      Custom sections named `.debug*` are never serialised by the custom-section loop.
 (g2) the public setters store the polarity their names promise
      (skip_x := !generate, generate_dwarf := generate).
 (g3) ModuleProducers::field: whether an entry is replaced or appended depends on the
      comparison of names only (never on the version); the replace path does not push.
      Module::parse calls add_processed_by("walrus", ..) exactly once, outside loops.
 (g4) the on_parse callback has one call site in Module::parse, outside loops, and it
      is the last fallible step; `.debug*` sections go to the debug list, never to
      `customs`, at parse time."""
import re
from registry import RuleResult
from heval import Evaluator, Policy, EvalError, sym, show, lit, syms_of, subterms
from cfg import Cfg, callee_name
from heval import norm_path
from mirutil import calls_to, where

EW = 'module::Module::emit_wasm'
MP = 'module::Module::parse'

GATED = [
    # (callee regex, flag atom text, value of the flag for which the step runs)
    (r'module::emit_name_section$', 'self.config.skip_name_section', False, 'name section'),
    (r'<module::producers::ModuleProducers as emit::Emit>::emit$', 'self.config.skip_producers_section', False, 'producers section'),
    (r'<module::debug::ModuleDebugData as emit::Emit>::emit$', 'self.config.generate_dwarf', True, 'DWARF sections'),
    (r'CustomSection::apply_code_transform$', 'self.config.preserve_code_transform', True, 'code transform for custom sections'),
]


def atoms(w):
    d = {}
    for k, v in w.assumptions:
        if isinstance(k, tuple) and k and k[0] == 'atom':
            d[show(k[1])] = v
        elif isinstance(v, tuple) and v and v[0] == 'ctor':
            d[show(k)] = v[2]
    return d


def run(ctx):
    F = ctx.F
    res = RuleResult('R-GATES', 'configuration switches gate exactly their section; producers merge; parse callback')
    res.floor = 14
    try:
        g1(F, res)
        g2(F, res)
        g2b(F, res)
        g3(F, res)
        g4(F, res)
    except EvalError as e:
        res.error('not analysable: %s' % e)
    return res


def g1(F, res):
    if EW not in F.hir:
        res.error('anchor lost: emit_wasm')
        return
    from flowlib import name_section_emitter
    from heval import local_policy
    nse = name_section_emitter(F)
    if nse is None:
        res.error('anchor lost: no function builds a wasm_encoder::NameSection')
        return
    GATED[0] = ('^' + re.escape(nse) + '$',) + GATED[0][1:]
    # helpers split off emit_wasm are looked through; the trace vocabulary is the crate's public / other-file functions
    pol = local_policy(F, EW, events=[re.escape(nse) + '$'], public_events=True)
    ws = Evaluator(F, pol).run_fn(EW, [sym('self')])
    names = lambda w: [e['callee'] for e in w.trace if e['kind'] == 'call']
    gated_re = [re.compile(g[0]) for g in GATED]
    base = None
    for gi, (rx, flag, runs_when, what) in enumerate(GATED):
        n_ok = n_bad = 0
        seen_flag = False
        for w in ws:
            if w.outcome != 'return':
                continue      # a world cut short (a filtered-out element of an iterator chain) says nothing about later steps
            a = atoms(w)
            present = any(re.search(rx, n) for n in names(w))
            if flag not in a:
                # the world never consulted the flag: for a per-section switch (in a loop) the step must be absent;
                # a top-level switch has to be consulted in every configuration, or another switch is gating it
                if present or (gi < 3 and w.outcome == 'return'):
                    n_bad += 1
                continue
            seen_flag = True
            skipped_section = gi >= 3 and any(k.startswith('starts_with(') and "'.debug'" in k and v is True for k, v in a.items())
            if skipped_section and not present:
                n_ok += 1        # the per-section switch was read up front, but this world's section is one the loop skips
                continue
            if present == (a[flag] == runs_when):
                n_ok += 1
            else:
                n_bad += 1
        key = 'emit/' + flag.split('.')[-1]
        if not seen_flag:
            res.bad(key + '/unused', 'emit_wasm never consults %s' % flag)
        elif n_bad:
            res.bad(key, '%s is not emitted exactly when %s == %s (%d of %d configurations disagree)'
                    % (what, flag.split('.')[-1], runs_when, n_bad, n_ok + n_bad))
        else:
            res.ok(key, {'gate': flag, 'controls': what, 'configurations': n_ok})
    # everything else is independent of the switches
    def rest(w):
        out = []
        for e in w.trace:
            if e['kind'] != 'call' or e['loops']:
                continue
            if any(r.search(e['callee']) for r in gated_re):
                continue
            out.append(e['callee'])
        return tuple(out)
    groups = {}
    for w in ws:
        if w.outcome != 'return':
            continue
        a = atoms(w)
        key = a.get('self.start')
        groups.setdefault(key, set()).add(rest(w))
    if all(len(v) == 1 for v in groups.values()):
        res.ok('emit/ungated-steps-constant', {'worlds': len(ws), 'steps': len(next(iter(groups.values())).__iter__().__next__())})
    else:
        res.bad('emit/ungated-steps', 'a standard emit step depends on a configuration switch it should not depend on')
    # .debug custom sections are skipped by the loop
    okd = True
    saw = False
    for w in ws:
        a = atoms(w)
        for k, v in a.items():
            if k.startswith('starts_with(') and "'.debug'" in k:
                saw = True
                in_loop = [e['callee'] for e in w.trace if e['kind'] == 'call' and e['loops']]
                emitted = any(n.endswith('wasm_encoder::Module::section') or n.endswith('CustomSection::data') for n in in_loop)
                if emitted == v:
                    okd = False
    if saw and okd:
        res.ok('emit/debug-customs-skipped', {'loop': 'custom sections named .debug* are skipped'})
    else:
        res.bad('emit/debug-customs-skipped', 'the custom-section loop must serialise exactly the sections whose name does not '
                'start with ".debug"')


SETTERS = [('generate_name_section', 'skip_name_section', True), ('generate_producers_section', 'skip_producers_section', True),
           ('generate_dwarf', 'generate_dwarf', False), ('preserve_code_transform', 'preserve_code_transform', False),
           ('only_stable_features', 'only_stable_features', False)]


def g2(F, res):
    ev = Evaluator(F, Policy())
    for fn, field, negated in SETTERS:
        p = 'module::config::ModuleConfig::' + fn
        if p not in F.hir:
            res.bad('setter/%s/missing' % fn, 'ModuleConfig::%s not found' % fn)
            continue
        ws = ev.run_fn(p, [sym('self'), sym('flag', 'bool')])
        good = True
        found = False
        for w in ws:
            for e in w.trace:
                if e['kind'] == 'store' and e['callee'].endswith('.' + field):
                    found = True
                    v = e['args'][1]
                    fl = [vv for k, vv in w.assumptions if isinstance(k, tuple) and k[0] == 'atom' and show(k[1]) == 'flag']
                    if v[0] == 'lit' and fl:
                        val = v[1]
                        want = (not fl[0]) if negated else fl[0]
                        if val != want:
                            good = False
                    elif v == sym('flag', 'bool'):
                        if negated:
                            good = False
                    elif v[0] == 'un' and v[1] == 'Not' and v[2] == sym('flag', 'bool'):
                        if not negated:
                            good = False
                    else:
                        good = False
        if found and good:
            res.ok('setter/' + fn, {'setter': fn, 'stores': ('!' if negated else '') + 'flag', 'into': field})
        else:
            res.bad('setter/' + fn, 'ModuleConfig::%s(flag) must store %sflag into %s' % (fn, '!' if negated else '', field))


def g2b(F, res):
    """each switch is written by its own setter only (documented implication: generate_dwarf also turns on
    preserve_code_transform): no other method of ModuleConfig may flip a switch behind the caller's back"""
    gate_fields = {field: fn for fn, field, _ in SETTERS}
    allowed_extra = {('generate_dwarf', 'preserve_code_transform')}
    writers = {}
    n = 0
    for p, body in F.mir.items():
        if not p.startswith('module::config::ModuleConfig::') or '{closure' in p:
            continue
        meth = p.split('::')[-1]
        if meth in ('new', 'default', 'clone', 'fmt'):
            continue
        for b in body['blocks']:
            for st in b['stmts']:
                if st.get('s') != 'Assign':
                    continue
                pl = st['p']
                flds = [x for x in pl[1:] if isinstance(x, str) and x.startswith('.')]
                if len(flds) == 1 and pl[-1] == flds[0] and 'ModuleConfig' in (body['locals'][pl[0]]['ty'] if pl[0] < len(body['locals']) else ''):
                    n += 1
                    writers.setdefault(flds[0][1:], set()).add(meth)
    for field, own in sorted(gate_fields.items()):
        ws = writers.get(field, set())
        extra = {m for m in ws if m != own and (m, field) not in allowed_extra}
        if extra:
            res.bad('setter/cross-talk/' + field, 'the switch `%s` is also written by ModuleConfig::%s: calling that method silently changes '
                    'what `%s` configured' % (field, sorted(extra), own))
        elif own in ws:
            res.ok('setter/only-writer/' + field, {'switch': field, 'written_by': sorted(ws)}, nontrivial=False)
        else:
            res.bad('setter/only-writer/' + field, 'no setter writes the switch `%s`' % field)


def g3(F, res):
    p = 'module::producers::ModuleProducers::field'
    if p not in F.hir:
        res.bad('producers/field/missing', 'ModuleProducers::field not found')
        return
    pol = Policy(effects=[r'std::vec::Vec::push$'])
    ws = Evaluator(F, pol).run_fn(p, [sym('self'), sym('field_name'), sym('name'), sym('version')])
    replace_worlds, push_value_worlds = [], []
    for w in ws:
        if w.outcome != 'return':
            continue
        stores = [e for e in w.trace if e['kind'] == 'store']
        pushes = [e for e in w.trace if e['kind'] == 'call' and e['callee'].endswith('Vec::push')]
        value_pushes = [e for e in pushes if 'values' in show(e['args'][0])]
        if stores and not pushes:
            replace_worlds.append(w)
        if value_pushes:
            push_value_worlds.append(w)
    def decision_terms(w):
        out = []
        for k, v in w.assumptions:
            if isinstance(k, tuple) and k and k[0] == 'atom':
                out.append((k[1], v))
            else:
                out.append((k, v))
        return out
    okk = True
    why = ''
    if not replace_worlds:
        okk, why = False, 'there is no path that replaces an existing entry in place'
    for w in replace_worlds:
        # the deciding comparisons must mention the entry name and never the version
        txt = ' ; '.join(show(t) for t, v in decision_terms(w))
        if 'version' in txt:
            okk, why = False, 'replacing an entry depends on its version (%s)' % txt[:200]
        if not re.search(r'\.name\b.*\bname\b|\bname\b.*\.name\b', txt):
            okk, why = False, 'replacing an entry is not decided by comparing names (%s)' % txt[:200]
    for w in push_value_worlds:
        txt = ' ; '.join('%s=%s' % (show(t), v) for t, v in decision_terms(w))
        if 'version' in txt:
            okk, why = False, 'appending an entry depends on the version (%s)' % txt[:200]
    if okk:
        res.ok('producers/replace-by-name', {'replace_paths': len(replace_worlds), 'append_paths': len(push_value_worlds)})
    else:
        res.bad('producers/replace-by-name', 'ModuleProducers::field: ' + why +
                ' - a module already processed by another walrus version would list walrus twice')
    # add_processed_by: one call in Module::parse, not in a loop
    if MP not in F.mir:
        res.error('anchor lost: Module::parse')
        return
    from mirinline import inline_local
    body = inline_local(F, MP)
    c = Cfg(body)
    cs = calls_to(body, lambda n: n.endswith('ModuleProducers::add_processed_by'))
    if len(cs) == 1 and not c.in_loop(cs[0][0]):
        res.ok('producers/processed-by-once', {'call': where(body, cs[0][0])})
    else:
        res.bad('producers/processed-by-once', 'Module::parse must record walrus as processing tool exactly once per parse '
                '(%d call sites, in loop: %s)' % (len(cs), [c.in_loop(b) for b, _ in cs]))
    # no other caller in the crate on the parse/emit paths
    others = [p2 for p2, b in F.mir.items() if p2 != MP and p2 not in body.get('inlined', []) and calls_to(b, lambda n: n.endswith('ModuleProducers::add_processed_by'))]
    if others:
        res.bad('producers/processed-by-elsewhere', 'add_processed_by is also called from %s' % others)


def g4(F, res):
    if MP not in F.mir:
        return
    from mirinline import inline_local
    body = inline_local(F, MP)
    c = Cfg(body)
    # the callback: a call through Fn::call on a value loaded from config.on_parse
    cbs = []
    for bb, t in c.calls():
        k = t['func'].get('k') or {}
        fn = norm_path(k.get('fn') or '')
        if fn in ('std::ops::Fn::call', 'std::ops::FnMut::call_mut', 'std::ops::FnOnce::call_once'):
            ga = ' '.join(k.get('gargs', []))
            if 'IndicesToIds' in ga and 'Module' in ga:
                cbs.append(bb)
    if len(cbs) != 1:
        res.bad('on_parse/call-sites', 'Module::parse must invoke the on_parse callback at exactly one site (found %d)' % len(cbs))
        return
    cb = cbs[0]
    if c.in_loop(cb):
        res.bad('on_parse/in-loop', 'the on_parse callback is invoked inside a loop', where(body, cb))
    else:
        res.ok('on_parse/once', {'call': where(body, cb)})
    # last fallible step: the only error exits reachable after the callback are its own
    after = c.reach_after(cb)
    later_fallible = []
    for bb, t in c.calls():
        if bb in after and bb != cb:
            n = norm_path(callee_name(t) or '')
            if 'FromResidual' in n and n.endswith('::from_residual'):
                later_fallible.append(bb)
    # its own `?` produces exactly one from_residual
    if not any('FromResidual' in norm_path(callee_name(t) or '') for _, t in c.calls()):
        res.error('on_parse/last-fallible-step: no `?` exit recognised anywhere in Module::parse')
    if len(later_fallible) <= 1:
        res.ok('on_parse/last-fallible-step', {'error_exits_after_callback': len(later_fallible)})
    else:
        res.bad('on_parse/last-fallible-step', 'parsing can still fail after the on_parse callback ran (%d later error exits): '
                'the callback would have run on a failed parse' % (len(later_fallible) - 1), where(body, later_fallible[-1]))
    # everything fallible of the parse happens before: the callback is dominated by the local-function and debug parsing
    for need in ('parse_local_functions', 'parse_debug_sections'):
        cs = calls_to(body, lambda n, need=need: n.endswith('::' + need))
        if cs and all(c.dominates(b, cb) for b, _ in cs):
            res.ok('on_parse/after/' + need, {'dominated_by': need})
        else:
            res.bad('on_parse/after/' + need, 'the on_parse callback must run after %s' % need)
    # .debug sections never enter customs at parse time: decided on the worlds of Module::parse (helpers looked through):
    # ModuleCustomSections::add happens only where `name.starts_with(".debug")` is known to be false
    from heval import local_policy
    good = False
    adds = []
    # functions of other files through which a custom section can be added are looked through as well, so that an `add`
    # hidden inside e.g. the producers parser is seen under the condition that routed the section there
    adders = set()
    tgt = [i for i, inst in enumerate(F.instances) if norm_path(inst['def']).endswith('ModuleCustomSections::add')]
    if tgt:
        rev = {}
        for e in F.mono_edges:
            rev.setdefault(e[1], []).append(e[0])
        seen, work = set(tgt), list(tgt)
        while work:
            x = work.pop()
            for y in rev.get(x, []):
                if y not in seen:
                    seen.add(y)
                    work.append(y)
        for i in seen:
            d = norm_path(F.instances[i]['def'])
            if d != MP and not d.endswith('ModuleCustomSections::add') and '{closure' not in d:
                adders.add(d)
    try:
        pws = Evaluator(F, local_policy(F, MP, public_events=True, also_inline=[re.escape(a) + '$' for a in sorted(adders)]),
                        max_worlds=20000).run_fn(MP, [sym('wasm'), sym('config')])
    except EvalError as e:
        res.error('Module::parse not analysable: %s' % e)
        pws = []
    kept_apart = False
    mixed = False
    for w in pws:
        a = atoms(w)
        dbg = [v for k, v in a.items() if k.startswith('starts_with(') and "'.debug'" in k]
        ad = [e for e in w.trace if e['kind'] == 'call' and e['callee'].endswith('ModuleCustomSections::add')]
        adds += ad
        if ad and dbg != [False]:
            mixed = True
        special = [k for k, v in a.items() if v is True and (" Eq 'producers')" in k or " Eq 'name')" in k)]
        if ad and special:
            res.bad('parse/interpreted-section-kept-raw', 'a section that walrus interprets (%s) is also stored among the raw custom '
                    'sections: it would be emitted regardless of its configuration switch, next to the regenerated one'
                    % special[0][-30:])
        if dbg == [True] and not ad:
            kept_apart = True
    good = kept_apart and not mixed
    if adds and good:
        res.ok('parse/debug-sections-kept-apart', {'customs.add': 'only when the name does not start with .debug'})
    else:
        res.bad('parse/debug-sections-kept-apart', 'custom sections named .debug* must not be stored among the generic custom sections')
