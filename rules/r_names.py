"""R-NAMEKIND / R-DEFUSE: debug names stay attached to the same entity.

 (k1) parse_name_section: for every wasmparser::Name subsection the index is resolved
      through the parse-time index space of *that* kind and the name is stored on the item
      of *that* collection (Name::Function -> get_func -> self.funcs, .. ; locals through
      get_local(function of the entry, index) -> self.locals).
 (k2) emit_name_section: every subsection method of wasm-encoder's NameSection receives the
      entries (get_<K>_index(item.id), item.name) drawn from the collection of kind K and only
      from items that have a name; each list is sorted by index before it is appended; subsections
      are appended in the order of wasm-encoder's `Subsection` enum; locals are keyed by
      (function index, local index of that function).
 (d)  R-DEFUSE: an index space is read only after it was written.  Every handler call in
      Module::parse is ranked (wasmparser's section order for payload arms, custom sections = end
      of loop, code after the loop last).  For every index space a handler reads (get_K reachable
      in the instance-level call graph) all writers of that space (push_K) must have a smaller or
      equal rank.  (The locals space is written only by parse_local_functions, after the loop.)"""
import re
from registry import RuleResult
from heval import Evaluator, Policy, EvalError, sym, show, cfield, norm_path
from cfg import Cfg, callee_name
import oracle
from mirutil import where

PNS = 'module::Module::parse_name_section'
ENS = 'module::emit_name_section'
MP = 'module::Module::parse'

PARSE_KINDS = {  # Name variant -> (index getter, collection on self)
    'Function': ('get_func', 'funcs'), 'Type': ('get_type', 'types'), 'Memory': ('get_memory', 'memories'),
    'Table': ('get_table', 'tables'), 'Data': ('get_data', 'data'), 'Element': ('get_element', 'elements'),
    'Global': ('get_global', 'globals'),
}
EMIT_KINDS = {  # NameSection method -> (index fn, collection)
    'functions': ('get_func_index', 'funcs'), 'types': ('get_type_index', 'types'), 'tables': ('get_table_index', 'tables'),
    'memories': ('get_memory_index', 'memories'), 'globals': ('get_global_index', 'globals'),
    'elements': ('get_element_index', 'elements'), 'data': ('get_data_index', 'data'),
}
INDEX_FNS = {v[0] for v in EMIT_KINDS.values()}   # the id->index vocabulary; any other accessor of the index maps is inlined
DROPPABLE = {'Label', 'Field', 'Tag', 'Unknown'}


def run(ctx):
    F = ctx.F
    res = RuleResult('R-NAMES', 'name section: kinds stay separate at parse and emit; index spaces are read after they are written')
    res.floor = 24
    try:
        k1(F, res)
        k2(F, res)
        defuse(F, res)
    except (EvalError, KeyError) as e:
        res.error('not analysable: %s' % e)
    return res


def k1(F, res):
    if PNS not in F.hir:
        res.error('anchor lost: parse_name_section')
        return
    pol = Policy(inline=lambda p: not p.startswith('parse::IndicesToIds'))
    ws = Evaluator(F, pol).run_fn(PNS, [sym('self'), sym('names'), sym('indices')])
    nm = F.adt('wasmparser::Name')
    seen = {}
    for w in ws:
        var = [v[2] for k, v in w.assumptions if isinstance(v, tuple) and v and v[0] == 'ctor' and v[1] == 'wasmparser::Name']
        if not var:
            continue
        v = var[0]
        stores = [e for e in w.trace if e['kind'] == 'store']
        if v in PARSE_KINDS:
            getter, coll = PARSE_KINDS[v]
            okw = [a for k, a in w.assumptions if isinstance(a, tuple) and a and a[0] == 'ctor' and a[2] in ('Ok', 'Err') and getter in show(k)]
            if not okw or okw[0][2] != 'Ok':
                continue
            st = [s for s in stores if s['callee'].endswith('.name')]
            good = len(st) == 1
            if good:
                base, val = show(st[0]['args'][0]), show(st[0]['args'][1])
                good = ('self.%s' % coll) in base and ('%s(indices, ' % getter) in base and '.index' in base \
                    and val.startswith('Option::Some(') and '.name' in val and base.count('get_') == 1
            if good:
                seen[v] = True
            else:
                seen[v] = 'a %s name is stored as %s' % (v, [(show(s['args'][0])[:80], show(s['args'][1])[:60]) for s in st])
        elif v == 'Local':
            st = [s for s in stores if s['callee'].endswith('.name')]
            if not st:
                continue
            base, val = show(st[0]['args'][0]), show(st[0]['args'][1])
            good = 'self.locals' in base and 'get_local(indices, get_func(indices, ' in base and '.name' in val
            seen[v] = True if good else 'a local name is stored as %s := %s' % (base[:100], val[:60])
        elif v == 'Module':
            m = w.value
            seen.setdefault(v, True)
        elif v in DROPPABLE:
            if stores:
                seen[v] = 'the ignored subsection %s stores something' % v
            else:
                seen.setdefault(v, True)
    for v in [x['name'] for x in nm['variants']]:
        r = seen.get(v)
        if r is True:
            res.ok('parse/' + v, {'subsection': v, 'resolved_through': PARSE_KINDS.get(v, ('-', '-'))[0], 'stored_on': PARSE_KINDS.get(v, ('-', v.lower()))[1]})
        elif r is None:
            res.bad('parse/%s/unhandled' % v, 'parse_name_section has no analysable successful path for the %s subsection' % v)
        else:
            res.bad('parse/' + v, r)


def unwrap_str(t):
    """`as_str(x)` / `as_ref(x)` / `deref(x)` / `borrow(x)` of a name is that name"""
    while True:
        m = re.match(r'^(as_str|as_ref|deref|borrow|as_deref)\((.*)\)$', t)
        if not m:
            return t
        t = m.group(2)


def k2(F, res):
    if ENS not in F.hir:
        res.error('anchor lost: emit_name_section')
        return
    def hint(t):
        s = show(t)
        if s.startswith('is_empty(') or s.startswith('is_none('):
            return False
        return None
    pol = Policy(effects=[r'wasm_encoder::Name\w*::\w+$', r'slice::<impl \[T\]>::sort', r'wasm_encoder::Module::section$',
                          r'wasm_encoder::IndirectNameMap::'],
                 inline=lambda p: not (p.startswith('emit::IdsToIndices') and p.split('::')[-1] in INDEX_FNS), atom_hint=hint)
    ws = [w for w in Evaluator(F, pol).run_fn(ENS, [sym('cx')]) if w.outcome == 'return']
    if not ws:
        res.error('emit_name_section: no world')
        return
    w = max(ws, key=lambda x: len(x.trace))
    tr = [e for e in w.trace if e['kind'] == 'call']
    lists_sorted = sum(1 for e in tr if 'sort' in e['callee'] and not e['loops'])
    verdict = {}      # key -> message of the first world in which it fails, or None

    def scan(wx):
        """per-kind subsections of one world; returns the order in which subsections are appended"""
        order = []
        pending = None
        for e in [x for x in wx.trace if x['kind'] == 'call']:
            n = e['callee'].split('::')[-1]
            owner = e['callee'].split('::')[-2]
            if owner == 'NameMap' and n == 'append' and len(e['loops']) == 1:
                pending = e
            if owner == 'NameSection' and n in EMIT_KINDS:
                idxfn, coll = EMIT_KINDS[n]
                order.append(n)
                if pending is None:
                    verdict['emit/%s/entries' % n] = 'the %s name map is appended without entries' % n
                    continue
                idx, name = show(pending['args'][1]), unwrap_str(show(pending['args'][2]))
                src = show(pending['loops'][-1])
                good = idx.startswith('%s(cx.indices, ' % idxfn) and ('cx.module.%s.' % coll) in idx and idx.endswith('.id)') \
                    and ('cx.module.%s.' % coll) in name and name.endswith('.name!') \
                    and idx[len(idxfn) + 13:-4] == name[:-6] and ('cx.module.%s.' % coll) in src
                if good:
                    verdict.setdefault('emit/' + n, None)
                else:
                    verdict['emit/' + n] = 'entries of the `%s` name subsection must be (%s(item.id), item.name) over module.%s; got (%s, %s)' \
                        % (n, idxfn, coll, idx[:80], name[:60])
                pending = None
            if owner == 'NameSection' and n == 'locals':
                order.append(n)
            if owner == 'NameSection' and n == 'module':
                order.append(n)
                if show(e['args'][1]) == 'cx.module.name!':
                    verdict.setdefault('emit/module', None)
                else:
                    verdict['emit/module'] = 'the module name subsection carries %s' % show(e['args'][1])[:120]
        return order
    order = scan(w)
    for wx in ws:
        if wx is not w:
            scan(wx)
    for key in sorted(verdict):
        if verdict[key] is None:
            res.ok(key, {'subsection': key.split('/')[1], 'entries': '(index of item.id, item.name) over its own collection'})
        else:
            res.bad(key, verdict[key])
    # locals
    la = [e for e in tr if e['callee'].endswith('NameMap::append') and len(e['loops']) == 2]
    ia = [e for e in tr if e['callee'].endswith('IndirectNameMap::append')]
    goodl = len(la) == 1 and len(ia) == 1
    if goodl:
        li, ln = show(la[0]['args'][1]), unwrap_str(show(la[0]['args'][2]))
        fi = show(ia[0]['args'][1])
        fid = fi[len('get_func_index(cx.indices, '):-1] if fi.startswith('get_func_index(cx.indices, ') else None
        goodl = fid is not None and ('get(cx.indices.locals, %s)' % fid) in li and 'cx.module.locals' in ln and ln.endswith('.name!') \
            and ('cx.locals, %s' % fid) in li
        # the inner map is sorted by local index before being appended
        inner_sort = [e for e in tr if 'sort' in e['callee'] and e['loops']]
        goodl = goodl and len(inner_sort) == 1
    if goodl:
        res.ok('emit/locals', {'subsection': 'locals', 'keyed_by': '(function index, local index of that function)', 'inner_sorted': True})
    else:
        res.bad('emit/locals', 'local names must be keyed by (function index, that function\'s local index) and sorted by local index')
    # every list is sorted by index: 9 top-level sorts (8 kinds + locals)
    want_sorts = len(EMIT_KINDS) + 1
    if lists_sorted >= want_sorts:
        res.ok('emit/sorted', {'sorted_lists': lists_sorted})
    else:
        res.bad('emit/sorted', 'only %d of %d name lists are sorted by index before they are appended' % (lists_sorted, want_sorts))
    # subsection order = wasm-encoder's Subsection enum order
    try:
        d = oracle.crate_dir('/repo', 'wasm-encoder')
        src = open(d + '/src/core/names.rs').read()
        m = re.search(r'enum Subsection \{(.*?)\}', src, re.S)
        subs = [x.strip().split('=')[0].strip() for x in re.sub(r'//.*', '', m.group(1)).split(',') if x.strip()]
        rank = {'Module': 'module', 'Function': 'functions', 'Local': 'locals', 'Type': 'types', 'Table': 'tables', 'Memory': 'memories',
                'Global': 'globals', 'Element': 'elements', 'Data': 'data'}
        want = [rank[s] for s in subs if s in rank]
        if order == [x for x in want if x in order] and set(order) == set(want):
            res.ok('emit/subsection-order', {'order': order})
        else:
            res.bad('emit/subsection-order', 'name subsections are appended as %s; wasm-encoder\'s Subsection order is %s' % (order, want))
    except Exception as e:
        res.note('subsection order oracle unavailable: %r' % (e,))


# ------------------------------------------------------------------ R-DEFUSE
GETS = re.compile(r'^parse::IndicesToIds::get_(\w+)$')
PUSHES = re.compile(r'^parse::IndicesToIds::push_(\w+)$')


def defuse(F, res):
    body = F.mir.get(MP)
    if body is None:
        res.error('anchor lost: Module::parse')
        return
    insts = F.insts_of(MP)
    if len(insts) != 1:
        res.error('Module::parse instance not found')
        return
    inst = insts[0]
    c = Cfg(body)
    order = oracle.section_order('/repo')
    rank_of = {n: i for i, n in enumerate(order)}
    # which payload arm does a call site belong to?  use the HIR-level worlds (nothing inlined)
    from heval import local_policy
    nop = local_policy(F, MP, public_events=True)
    ws = Evaluator(F, nop).run_fn(MP, [sym('wasm'), sym('config')])
    arm_of = {}     # callee name -> set(payload variants) for in-loop handler calls
    for w in ws:
        pv = [v[2] for k, v in w.assumptions if isinstance(v, tuple) and v and v[0] == 'ctor' and v[1] == 'wasmparser::Payload']
        if not pv:
            continue
        for e in w.trace:
            if e['kind'] == 'call' and e['loops'] and not e['callee'].startswith('wasmparser::'):
                arm_of.setdefault(e['callee'], set()).add(pv[0])

    def rank_payload(v):
        if v == 'CustomSection':
            return len(order)           # anywhere; conventionally after everything in the loop
        if v.startswith('CodeSection'):
            return rank_of.get('Code', 0)
        n = v.replace('Section', '')
        return rank_of.get(n, 0)
    # the payload loop: the natural loop that contains the wasmparser::Validator section calls
    loops = c.natural_loops()
    vblocks = [bb for bb, t in c.calls() if norm_path(callee_name(t) or '').startswith('wasmparser::Validator::')]
    payload_loop = set()
    best = 0
    for h, blocks in loops.items():
        n = sum(1 for b in vblocks if b in blocks)
        if n > best and n * 2 >= len(vblocks):
            best, payload_loop = n, blocks
    sites = []   # (rank, name, gets, pushes, bb)
    for bb, t in c.calls():
        name = norm_path(callee_name(t) or '')
        if not name or name.startswith('std::') or name.startswith('log::') or name.startswith('wasmparser::') or name.startswith('anyhow::') \
                or name.startswith('core::'):
            continue
        edges = F.calls_from_block(inst, bb)
        start = [e[1] for e in edges if e[2] in ('call', 'virtual', 'dyn_impl', 'mention')]
        defs = F.reach_defs(start) if start else set()
        defs.add(name)
        gets = {m.group(1) for d in defs for m in [GETS.match(norm_path(d))] if m}
        pushes = {m.group(1) for d in defs for m in [PUSHES.match(norm_path(d))] if m}
        if not gets and not pushes:
            continue
        if bb in payload_loop:
            arms = arm_of.get(name) or set()
            if not arms:
                # match by suffix (trait/impl naming)
                for k2, v2 in arm_of.items():
                    if k2.split('::')[-1] == name.split('::')[-1]:
                        arms |= v2
            r = max([rank_payload(a) for a in arms]) if arms else len(order)
        else:
            r = len(order) + 1 + len([1 for b2, _ in c.calls() if b2 not in payload_loop and c.dominates(b2, bb) and b2 != bb]) / 1000.0
        sites.append((r, name, gets, pushes, bb))
    writers = {}
    for r, name, gets, pushes, bb in sites:
        for k in pushes:
            writers.setdefault(k, []).append((r, name))
    for r, name, gets, pushes, bb in sites:
        short = name.split('::')[-1]
        for k in sorted(gets):
            ws_k = writers.get(k, [])
            key = 'defuse/%s/%s' % (short, k)
            if not ws_k:
                res.bad(key + '/no-writer', '%s reads the %s index space, which nothing in Module::parse fills' % (short, k), where(body, bb))
                continue
            late = [(wr, wn) for wr, wn in ws_k if wr > r]
            if late:
                res.bad(key, '%s reads the `%s` index space before %s has filled it: every lookup fails and the data is dropped'
                        % (short, k, ', '.join(sorted({wn.split('::')[-1] for _, wn in late}))), where(body, bb))
            else:
                res.ok(key, {'reader': short, 'space': k, 'writers': sorted({wn.split('::')[-1] for _, wn in ws_k})})
