"""R-NONDET: hash order never reaches the output.

 (n1) no iteration (iter/keys/values/into_iter/drain/retain/for) over a std HashMap/HashSet
      with the default RandomState hasher anywhere in the crate (run-to-run nondeterminism);
      control: the scanner must see the crate's RandomState map being used (get/insert/remove).
 (n2) every iteration over an IdHashMap/IdHashSet in code reachable from Module::emit_wasm
      is either consumed by an order-insensitive sink (collect into a set/map, count, any, all,
      min, max, sum) or collected into a Vec that the same function sorts with a TOTAL key
      before use: `sort()/sort_unstable()` on the elements, or `sort_by_key` whose key is the
      whole element or its leading emitted index (`.0: u32`).  A sort on a partial key (e.g. the
      type only) leaves ties in hash order."""
import re
from registry import RuleResult
from heval import norm_path
from cfg import callee_name

ITER = {'iter', 'iter_mut', 'keys', 'values', 'values_mut', 'into_iter', 'drain', 'retain', 'into_keys', 'into_values'}
INSENSITIVE = {'count', 'any', 'all', 'min', 'max', 'sum', 'len', 'is_empty', 'contains', 'min_by_key', 'max_by_key', 'fold_unordered'}


def is_hash_ty(t):
    from facts import ty_head
    return bool(re.match(r'^std::collections::(HashMap|HashSet|hash_map|hash_set)', ty_head(t or '')))


def default_hasher(ty):
    """a std HashMap / HashSet type written without a hasher argument (rustc prints the default RandomState as nothing)"""
    from facts import ty_head, ty_args
    t = (ty or '').lstrip('&').replace('mut ', '').strip()
    h = ty_head(t)
    n = len(ty_args(t))
    return (h.endswith('HashMap') and n == 2) or (h.endswith('HashSet') and n == 1) or 'RandomState' in t


def run(ctx):
    F = ctx.F
    res = RuleResult('R-NONDET', 'hash iteration order never reaches the emitted bytes')
    res.floor = 3
    # ---------------- n1 (MIR scan, whole crate)
    seen_random_use = 0
    offenders = []
    for p, b in F.mir.items():
        for i, blk in enumerate(b['blocks']):
            t = blk['term']
            if t['t'] != 'Call':
                continue
            k = t['func'].get('k') or {}
            n = norm_path(k.get('fn') or '')
            ga = ' '.join(k.get('gargs', []))
            last = n.split('::')[-1]
            hashy = ('std::collections::HashMap' in n or 'std::collections::HashSet' in n or 'hash_map::' in n or 'hash_set::' in n)
            intoiter = n.endswith('IntoIterator::into_iter') and k.get('gargs') and is_hash_ty(k['gargs'][0].lstrip('&').replace('mut ', ''))
            if not (hashy or intoiter):
                continue
            if 'RandomState' in ga or (hashy and 'BuildIdHasher' not in ga and 'map::' not in ga and re.search(r'HashMap<[^,]+,[^,]+>$|HashSet<[^,]+>$', ga)) \
                    or (intoiter and default_hasher(k['gargs'][0])):
                if last in ITER or intoiter:
                    offenders.append((p, t.get('l'), last))
                else:
                    seen_random_use += 1
            elif 'RandomState' in ga:
                seen_random_use += 1
    if seen_random_use == 0:
        # look at types of ADT fields as a fallback control
        ctl = [a for a in F.adts.values() if a['local'] for v in a['variants'] for f in v['fields']
               if re.search(r'HashMap<[^<>]*(<[^<>]*>)?[^<>]*>$', f['ty']) and 'BuildIdHasher' not in f['ty']]
        if not ctl:
            res.note('the crate no longer contains a RandomState map')
    if offenders:
        for p, l, last in offenders:
            res.bad('random-state/%s/%s' % (p, last), 'iteration (%s) over a RandomState hash container in %s: order differs from run to run' % (last, p),
                    '%s line %s' % (p, l))
    else:
        res.ok('random-state/no-iteration', {'random_state_uses_seen': seen_random_use, 'iterations': 0})
    # ---------------- n2 (HIR, emit-reachable)
    ew = F.insts_of('module::Module::emit_wasm')
    if not ew:
        res.error('anchor lost: emit_wasm')
        return res
    reach = F.reach_defs(ew)
    top = lambda d: d.split('::{closure')[0]
    emit_fns = {top(d) for d in reach}
    n_sites = 0
    for path, h in F.hir.items():
        if path not in emit_fns:
            continue
        parents = {}
        nodes = []

        def index(n, parent):
            if isinstance(n, dict):
                parents[id(n)] = parent
                nodes.append(n)
                for v in n.values():
                    index(v, n)
            elif isinstance(n, list):
                for v in n:
                    index(v, parent)
        index(h['body'], None)
        sorts = []
        for n in nodes:
            if n.get('k') == 'MethodCall':
                c = norm_path(n.get('callee') or '')
                m = c.split('::')[-1]
                if (c.startswith('std::slice::') or c.startswith('core::slice::') or c.startswith('alloc::slice::')) and m.startswith('sort'):
                    sorts.append(n)
        for n in nodes:
            site = None
            if n.get('k') == 'MethodCall':
                c = norm_path(n.get('callee') or '')
                if c.split('::')[-1] in ITER and is_hash_ty(n.get('recv_ty')) and 'BuildIdHasher' in (n.get('recv_ty') or ''):
                    site = n
            if n.get('k') == 'Match' and n.get('src') == 'ForLoopDesugar' and n['scrut'].get('k') == 'Call':
                a0 = (n['scrut'].get('args') or [{}])[0]
                if is_hash_ty(a0.get('ty')) and 'BuildIdHasher' in (a0.get('ty') or ''):
                    site = n
            if site is None:
                continue
            n_sites += 1
            key = 'idhash/%s/line-independent-%d' % (path, n_sites)
            # follow the method chain outward
            cur = site
            chain = []
            while True:
                par = parents.get(id(cur))
                if par is not None and par.get('k') == 'MethodCall' and par.get('recv') is cur:
                    chain.append(norm_path(par.get('callee') or '').split('::')[-1])
                    cur = par
                    continue
                break
            verdict = None
            floop = enclosing_for(site, parents) if not chain or site.get('k') == 'Match' else None
            if floop is not None:
                # a `for` loop over the container: fine when all it does with the elements is push them onto local vectors
                # that this function sorts with a total key afterwards
                pushed = for_loop_pushes(floop)
                if pushed:
                    vs = []
                    for lid in pushed:
                        srt = [x for x in sorts if local_id_of(x.get('recv')) == lid]
                        vs.append(sort_verdict(srt[0]) if srt else ('bad', 'pushed onto a vector that is never sorted in this function'))
                    bad_ones = [v for v in vs if v[0] != 'ok']
                    verdict = bad_ones[0] if bad_ones else ('ok', 'for loop pushing onto vector(s) that are ' + vs[0][1].replace('collected then ', ''))
                elif site.get('k') == 'Match':
                    verdict = ('bad', 'a `for` loop iterates an IdHash container directly in emit code')
            elif site.get('k') == 'Match':
                verdict = ('bad', 'a `for` loop iterates an IdHash container directly in emit code')
            if verdict is not None:
                pass
            elif chain and chain[-1] in INSENSITIVE:
                verdict = ('ok', 'order-insensitive sink ' + chain[-1])
            elif chain and chain[-1] == 'collect':
                cty = cur.get('ty') or ''
                if re.match(r'^std::collections::(HashSet|HashMap|BTreeSet|BTreeMap)', cty):
                    verdict = ('ok', 'collected into ' + cty.split('<')[0])
                else:
                    # a total sort on a Vec of this element type in the same function
                    found = None
                    for s in sorts:
                        rty = (s.get('recv_ty') or '')
                        if elem_ty(rty) != elem_ty(cty):
                            continue
                        found = s
                        break
                    if found is None:
                        verdict = ('bad', 'collected into %s and never sorted in this function' % cty[:60])
                    else:
                        verdict = sort_verdict(found)
            else:
                verdict = None
                par = parents.get(id(cur))
                hops = 0
                while par is not None and par.get('k') in ('AddrOf', 'Block') and hops < 3:
                    cur, par = par, parents.get(id(par))
                    hops += 1
                if par is not None and par.get('k') == 'MethodCall' and norm_path(par.get('callee') or '').endswith('::extend') \
                        and local_id_of(par.get('recv')) is not None and cur is not par.get('recv'):
                    # appended to a local vector: fine when this function then sorts that vector with a total key
                    srt = [x for x in sorts if local_id_of(x.get('recv')) == local_id_of(par.get('recv'))]
                    verdict = sort_verdict(srt[0]) if srt else ('bad', 'appended to a vector that is never sorted in this function')
                elif par is not None and par.get('k') in ('Call', 'MethodCall') and par.get('callee'):
                    g = norm_path(par['callee'])
                    gh = F.hir.get(g) or F.hir.get(getattr(F, '_norm_hir', {}).get(g, ''))
                    if gh is None:
                        for kk in F.hir:
                            if norm_path(kk) == g:
                                gh = F.hir[kk]
                                break
                    why = sorted_by_helper(gh) if gh else None
                    if why:
                        verdict = ('ok', 'handed to %s, which %s' % (g.split('::')[-1], why))
                if verdict is None:
                    verdict = ('bad', 'iteration result flows into %s' % (chain[-1] if chain else 'an unknown consumer'))
            if verdict[0] == 'ok':
                res.ok(key, {'fn': path, 'line': site.get('l'), 'chain': chain, 'why': verdict[1]})
            else:
                res.bad('idhash/%s/%s' % (path, re.sub(r'\W+', '_', verdict[1])[:50]),
                        'IdHash iteration in emit code (%s): %s' % (path.split('::')[-1], verdict[1]), '%s line %s' % (path, site.get('l')))
    if n_sites == 0:
        res.note('no IdHash iteration in emit-reachable code')
    return res


def sort_verdict(found):
    m = norm_path(found.get('callee')).split('::')[-1]
    if m in ('sort', 'sort_unstable'):
        return ('ok', 'collected then %s()' % m)
    if m in ('sort_by_key', 'sort_unstable_by_key', 'sort_by_cached_key'):
        cl = found['args'][0] if found.get('args') else {}
        kt = key_of(cl)
        if kt == 'whole':
            return ('ok', 'collected then sorted by the whole element')
        if kt and kt[0] == 'field0' and kt[1] in ('u32', 'usize', 'u64'):
            return ('ok', 'collected then sorted by its leading index (.0: %s)' % kt[1])
        return ('bad', 'collected and sorted by a partial key (%s): ties stay in hash order' % (kt,))
    return ('bad', 'sorted with a custom comparator (%s) that the rule cannot show to be total' % m)


def local_id_of(n):
    while isinstance(n, dict) and (n.get('k') == 'AddrOf' or (n.get('k') == 'Unary' and n.get('op') == 'Deref')):
        n = n['e'] if n['k'] == 'AddrOf' else n['a']
    if isinstance(n, dict) and n.get('k') == 'Path' and n.get('res') == 'local':
        return n.get('id')
    return None


def enclosing_for(site, parents):
    """the `for` loop whose iterable expression `site` is (directly, or as the receiver of into_iter)"""
    if site.get('k') == 'Match' and site.get('src') == 'ForLoopDesugar':
        return site
    cur = site
    for _ in range(4):
        par = parents.get(id(cur))
        if par is None:
            return None
        if par.get('k') == 'Match' and par.get('src') == 'ForLoopDesugar':
            return par
        if par.get('k') in ('Call', 'AddrOf', 'MethodCall'):
            cur = par
            continue
        return None
    return None


def for_loop_pushes(floop):
    """ids of the local vectors the loop body pushes onto, or [] if the body does anything else order-dependent we
    cannot see through (calls that receive `&mut` state other than those vectors are left to the other rules)"""
    out = []
    other = []

    def walk(n):
        if isinstance(n, dict):
            if n.get('k') == 'MethodCall' and norm_path(n.get('callee') or '').endswith('Vec::push'):
                lid = local_id_of(n.get('recv'))
                if lid is not None and lid not in out:
                    out.append(lid)
                elif lid is None:
                    other.append('push onto something that is not a local vector')
            elif n.get('k') in ('Assign', 'AssignOp'):
                other.append('assignment')
            elif n.get('k') == 'MethodCall' and (n.get('recv_ty') or '').startswith('&mut') \
                    and norm_path(n.get('callee') or '').split('::')[-1] not in ('next', 'into_iter'):
                other.append('mutating call ' + norm_path(n.get('callee') or '').split('::')[-1])
            for v in n.values():
                walk(v)
        elif isinstance(n, list):
            for v in n:
                walk(v)
    body_arms = [a.get('body') for a in (floop.get('arms') or [])]
    walk(body_arms)
    return [] if other else out


def sorted_by_helper(h):
    """a helper that collects what it is given and sorts it with a total key before returning it"""
    found = []

    def walk(n):
        if isinstance(n, dict):
            if n.get('k') == 'MethodCall':
                c = norm_path(n.get('callee') or '')
                m = c.split('::')[-1]
                if (c.startswith('std::slice::') or c.startswith('core::slice::') or c.startswith('alloc::slice::')) and m.startswith('sort'):
                    found.append(n)
            for v in n.values():
                walk(v)
        elif isinstance(n, list):
            for v in n:
                walk(v)
    walk(h['body'])
    if len(found) != 1:
        return None
    sn = found[0]
    m = norm_path(sn.get('callee')).split('::')[-1]
    if m in ('sort', 'sort_unstable'):
        return 'sorts the collected elements'
    if m in ('sort_by_key', 'sort_unstable_by_key', 'sort_by_cached_key'):
        kt = key_of(sn['args'][0] if sn.get('args') else {})
        if kt == 'whole':
            return 'sorts by the whole element'
        if kt and kt[0] == 'field0' and kt[1] in ('u32', 'usize', 'u64'):
            return 'sorts by the leading index (.0: %s)' % kt[1]
    return None


def elem_ty(vec_ty):
    t = vec_ty.strip().replace('&mut ', '').lstrip('&').strip()
    m = re.match(r'^std::vec::Vec<(.*)>$', t)
    if m:
        return m.group(1)
    m = re.match(r'^\[(.*)\]$', t)
    if m:
        return m.group(1)
    return t


def key_of(closure):
    """('field0', type) | 'whole' | description"""
    if closure.get('k') != 'Closure':
        return None
    body = closure['body']
    while body.get('k') == 'Block' and not body['stmts'] and body.get('expr'):
        body = body['expr']
    params = closure.get('params') or []
    if body.get('k') == 'Field' and body.get('name') == '0' and body['e'].get('k') == 'Path':
        return ('field0', body.get('ty'))
    if body.get('k') == 'Path' and params:
        p = params[0]
        # |x| x   or |&x| x
        q = p
        while q.get('k') in ('Ref', 'Deref'):
            q = q['p']
        if q.get('k') == 'Bind' and q.get('id') == body.get('id'):
            return 'whole'
        # |&(a, _)| a : the leading component is the element's `.0`
        if q.get('k') == 'Tuple' and q.get('pats'):
            first = q['pats'][0]
            while first.get('k') in ('Ref', 'Deref'):
                first = first['p']
            if first.get('k') == 'Bind' and first.get('id') == body.get('id'):
                return ('field0', body.get('ty'))
        return ('component', body.get('ty'))
    return ('expr', body.get('k'))
