"""R-NOREC: no recursion on input-shaped data.

Tarjan SCC over the instance-level call graph (trait calls resolved per instance,
closures and dyn impls included): no cycle may be reachable from Module::parse,
Module::emit_wasm, passes::gc::run or any instance of the traversal drivers.
Generic functions that have no instance inside the crate (dfs_pre_order_mut) are
additionally checked on the definition-level graph built from their MIR."""
from registry import RuleResult
from cfg import Cfg, callee_name
from heval import norm_path

ROOT_DEFS = ['module::Module::parse', 'module::Module::emit_wasm', 'passes::gc::run', 'ir::traversals::dfs_in_order',
             'ir::traversals::dfs_pre_order_mut', 'passes::used::Used::new']


def sccs(nodes, succ):
    index = {}
    low = {}
    onstack = set()
    stack = []
    out = []
    counter = [0]
    for root in nodes:
        if root in index:
            continue
        work = [(root, iter(succ.get(root, ())))]
        index[root] = low[root] = counter[0]
        counter[0] += 1
        stack.append(root)
        onstack.add(root)
        while work:
            v, it = work[-1]
            advanced = False
            for w in it:
                if w not in index:
                    index[w] = low[w] = counter[0]
                    counter[0] += 1
                    stack.append(w)
                    onstack.add(w)
                    work.append((w, iter(succ.get(w, ()))))
                    advanced = True
                    break
                elif w in onstack:
                    low[v] = min(low[v], index[w])
            if advanced:
                continue
            work.pop()
            if work:
                u = work[-1][0]
                low[u] = min(low[u], low[v])
            if low[v] == index[v]:
                comp = []
                while True:
                    w = stack.pop()
                    onstack.discard(w)
                    comp.append(w)
                    if w == v:
                        break
                out.append(comp)
    return out


def run(ctx):
    F = ctx.F
    res = RuleResult('R-NOREC', 'no call cycle reachable from parse / emit / gc / traversal drivers')
    res.floor = 5
    # positive control: the SCC code finds a planted cycle
    ctl = sccs(['a', 'b', 'c', 'd'], {'a': ['b'], 'b': ['c'], 'c': ['b', 'd'], 'd': ['d']})
    cyc = [c for c in ctl if len(c) > 1 or (len(c) == 1 and c[0] in {'d'})]
    if sorted(map(sorted, cyc)) != [['b', 'c'], ['d']]:
        res.error('positive control failed: cycle detection does not find the planted cycles')
        return res
    res.ok('control/planted-cycle', {'control': 'planted cycles b<->c and d->d found'}, nontrivial=False)
    succ = {}
    for e in F.mono_edges:
        succ.setdefault(e[0], set()).add(e[1])
    for d in ROOT_DEFS:
        insts = F.insts_of(d)
        if not insts:
            if d in F.mir:
                check_def_level(F, res, d)
            else:
                res.bad('root/%s/missing' % d, 'entry point %s not found' % d)
            continue
        reach = F.reach_insts(insts)
        local = [i for i in reach if F.instances[i]['local']]
        comps = sccs(local, {i: [j for j in succ.get(i, ()) if j in reach] for i in local})
        bad = []
        for comp in comps:
            if len(comp) > 1 or (comp[0] in succ.get(comp[0], ())):
                bad.append(comp)
        short = d.split('::')[-1]
        if bad:
            for comp in bad:
                names = sorted({F.instances[i]['def'] for i in comp})
                res.bad('cycle/%s/%s' % (short, names[0]), 'recursion reachable from %s: %s' % (d, ' <-> '.join(names)[:300]))
        else:
            res.ok('acyclic/' + short, {'entry': d, 'instances': len(insts), 'reachable_local_instances': len(local)})
    res.exhaustive = True
    return res


def check_def_level(F, res, d):
    """definition-level graph restricted to local defs: direct callee names (declared and resolved)"""
    succ = {}
    for p, body in F.mir.items():
        s = set()
        for b in body['blocks']:
            t = b['term']
            if t['t'] in ('Call', 'TailCall'):
                k = t['func'].get('k') or {}
                for key in ('fn', 'resolved'):
                    n = k.get(key)
                    if n and n in F.mir:
                        s.add(n)
                    # calls on a type parameter: the trait's default body and every local impl of that method
                    if key == 'fn' and n and k.get('trait') and not k.get('resolved'):
                        m = n.split('::')[-1]
                        for q, fn in F.fns.items():
                            if fn.get('impl_trait') == k['trait'] and q.endswith('::' + m) and q in F.mir:
                                s.add(q)
        succ[p] = s
    seen, work = set(), [d]
    while work:
        x = work.pop()
        if x in seen:
            continue
        seen.add(x)
        work.extend(succ.get(x, ()))
    comps = sccs(sorted(seen), {i: [j for j in succ.get(i, ()) if j in seen] for i in seen})
    bad = [c for c in comps if len(c) > 1 or c[0] in succ.get(c[0], ())]
    short = d.split('::')[-1]
    if bad:
        for comp in bad:
            res.bad('cycle/%s/%s' % (short, sorted(comp)[0]), 'recursion reachable from %s (definition level): %s'
                    % (d, ' <-> '.join(sorted(comp))[:300]))
    else:
        res.ok('acyclic/' + short, {'entry': d, 'level': 'definitions', 'reachable_local_defs': len(seen)})
