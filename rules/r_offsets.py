"""R-OFFSETS: code offsets are recorded, filtered, rebased and searched soundly.

 (a) record-before-encode: in Emit::visit_instr / end_instr_seq the pair (location, encoder.byte_len())
     is pushed onto the offset map before the instruction / `end` / `else` is encoded;
 (b) synthetic locations are filtered: collect_non_default_code_offsets inserts a pair only when
     `!src.is_default()`, with the function-relative offset rebased by the function's start;
     the builder attaches InstrLocId::default() to everything it creates (R-BUILDER b1);
 (e) measured provenance: every offset that ModuleFunctions::emit publishes in CodeTransform
     (code_section_start, function_ranges, the rebase argument, the running cursor) is a sum /
     difference of *measurements* taken from the encoders (len(..), byte_len(..)) - no other
     function (a hand-written LEB-length helper, say) and no integer literal other than 0 may take
     part: every variable-length prefix in wasm is LEB encoded, so a constant cannot be right for
     all inputs and a re-computation can disagree with what the encoder wrote;
 (g) at parse, every operator's input offset is recorded in instruction_mapping unconditionally
     (one insert per loop iteration, key = position - code section offset, value = its location);
 (h) DWARF address conversion: the closure handed to gimli maps an unconvertible address to the
     tombstone DEAD_CODE and leaves 0 / DEAD_CODE untouched; converted addresses are rebased by
     code_transform.code_section_start;
 (d) R-ZERODEC (contradiction rule, MIR): an unsigned value that the function compares with 0 must
     not be decremented at a point that the `!= 0` edge of such a comparison does not dominate."""
import re
from registry import RuleResult
from heval import Evaluator, Policy, EvalError, sym, lit, ctor, show, cfield, some, NONE, subterms, strip_after, norm_path
from cfg import Cfg, callee_name, operand_place
from r_table import EMIT, cast_lossless
from mirutil import where

MEASURES = {'len', 'byte_len'}


def run(ctx):
    F = ctx.F
    res = RuleResult('R-OFFSETS', 'code offsets: recorded before encoding, synthetic ones filtered, measured not recomputed, tombstoned')
    res.floor = 10
    for fn in (record_before_encode, provenance, parse_mapping, dwarf_closure, zerodec):
        try:
            fn(F, res)
        except (EvalError, KeyError, IndexError) as e:
            res.error('%s not analysable: %r' % (fn.__name__, e))
    return res


# ---------------------------------------------------------------- (a)
def record_before_encode(F, res):
    emits = {}
    for m in ('visit_instr', 'end_instr_seq'):
        c = [p for p in F.hir if p.endswith('::' + m) and 'emit::Emit' in p]
        emits[m] = c[0]
    pol = Policy(effects=[r'wasm_encoder::Function::(instruction|byte_len)$', r'std::vec::Vec::push$'],
                 inline=lambda p: not p.startswith('emit::IdsToIndices'))
    ev = Evaluator(F, pol)
    import flowlib
    _, self_t, _unk = flowlib.emit_self(F, some(sym('MAP')))
    instr = ctor('ir::Instr', 'Drop', [('0', ctor('ir::Drop', 'Drop', []))])
    seq = ctor('ir::InstrSeq', 'InstrSeq', [('id', sym('sid')), ('ty', sym('sty')), ('instrs', sym('instrs')), ('end', sym('send'))])
    for name, fn, args, loc in (('visit_instr', emits['visit_instr'], [self_t, instr, sym('loc')], 'loc'),
                                ('end_instr_seq', emits['end_instr_seq'], [self_t, seq], 'send')):
        ws = ev.run_fn(fn, args)
        good = True
        n = 0
        for w in ws:
            if w.outcome != 'return':
                continue
            tr = [e for e in w.trace if e['kind'] == 'call']
            ins = [i for i, e in enumerate(tr) if e['callee'].endswith('::instruction')]
            rec = [i for i, e in enumerate(tr) if e['callee'].endswith('Vec::push') and show(e['args'][0]) == 'MAP']
            if not ins:
                if rec:
                    # an offset is recorded for an opcode that this call never writes: it would point at whatever comes next
                    good = False
                continue
            n += 1
            if len(rec) != 1 or rec[0] > ins[0]:
                good = False
                continue
            pair = tr[rec[0]]['args'][1]
            if not (pair[0] == 'tup' and show(pair[1][0]) == loc and show(pair[1][1]) == 'byte_len(encoder)'):
                good = False
        if good and n:
            res.ok('record/' + name, {'fn': name, 'records': '(%s, encoder.byte_len()) before encoding' % loc, 'worlds': n})
        else:
            res.bad('record/' + name, 'Emit::%s must push (%s, encoder.byte_len()) onto the offset map BEFORE it encodes: an offset taken '
                    'after the instruction points at the next one' % (name, loc))


# ---------------------------------------------------------------- (e)
def leaves_ok(t, problems, seen=None):
    """walk an offset term; allowed: Add/Sub, lossless casts, measurement calls, loop variables, literal 0"""
    t0 = t
    t = strip_after(t) if (isinstance(t, tuple) and t and t[0] == 'call' and t[1] in ('loop_carried', 'loop_result')) else t
    if not isinstance(t, tuple) or not t:
        return
    k = t[0]
    if k == 'bin':
        if t[1] not in ('Add', 'Sub'):
            problems.append('operator %s in offset arithmetic' % t[1])
        leaves_ok(t[2], problems)
        leaves_ok(t[3], problems)
        return
    if k == 'lit':
        if t[1] not in (0,):
            problems.append('the integer literal %r' % (t[1],))
        return
    if k == 'cast':
        if not cast_lossless(t[2], t[3]):
            problems.append('a lossy cast %s -> %s' % (t[2], t[3]))
        leaves_ok(t[1], problems)
        return
    if k == 'call':
        name = t[1].split('::')[-1]
        if t[1] == 'loopvar':
            leaves_ok(t[2][1], problems)     # its initial value; the update is checked separately
            return
        if t[1] in ('loop_result', 'loop_carried'):
            leaves_ok(t[2][1], problems)
            return
        if name in MEASURES:
            return
        problems.append('`%s(..)`, which is computed rather than measured from an encoder' % name)
        return
    if k in ('field', 'elem', 'ok', 'sym'):
        return
    problems.append('an unexpected term %s' % show(t)[:60])


def _range_of(t):
    if isinstance(t, tuple) and t and t[0] == 'tup' and len(t[1]) == 2 and t[1][1][0] == 'ctor' and t[1][1][2] == 'Range':
        return t[1][1]
    return None


def range_pushes(w):
    """[(event, range term)] for what publishes a function's byte range: `(function id, start..end)` pushed onto a vector,
    or a sequence of such pairs appended with `extend` (the vector is cx.code_transform.function_ranges itself, or a local
    that ends up there)"""
    out = []
    for e in w.trace:
        if e['kind'] != 'call' or len(e['args']) != 2:
            continue
        if e['callee'].endswith('Vec::push'):
            r = _range_of(e['args'][1])
        elif e['callee'].endswith('::extend') and e['args'][1][0] == 'seq':
            r = _range_of(e['args'][1][2])
        else:
            r = None
        if r is not None:
            out.append((e, r))
    return out


def cursor_updates(w, rngs):
    """updates of the running offset: the loop variables that the published range starts are computed from"""
    starts = ' '.join(show(cfield(r, 'start')) for _, r in rngs)
    return [e for e in w.trace if e['kind'] == 'loop_update' and
            ('offset' in e['callee'] or (starts and show(e['args'][0]) in starts))]


def provenance(F, res):
    """(b)+(e) on one evaluation of the code-section emitter with the helpers next to it looked through: what is
    published (instruction_map inserts, function_ranges, code_section_start, the running cursor) and from what."""
    from heval import local_policy
    p = '<module::functions::ModuleFunctions as emit::Emit>::emit'
    pol = local_policy(F, p, public_events=True,
                       events=[r'Vec::push$', r'BTreeMap::insert$', r'::extend$', r'InstrLocId::is_default$'])
    ws = Evaluator(F, pol, max_worlds=20000).run_fn(p, [sym('self'), sym('cx')])
    ws = [w for w in ws if w.outcome in ('return', 'pruned')]
    if not ws:
        res.error('ModuleFunctions::emit: no analysable path')
        return
    # ---- (b) synthetic locations are filtered out, real ones inserted with a rebased offset
    ins_default = ins_real = None
    val_ok = False
    offset_terms = []
    for w in ws:
        at = [(k[1], v) for k, v in w.assumptions if isinstance(k, tuple) and k and k[0] == 'atom']
        d = []
        for t, v in at:
            neg = False
            while isinstance(t, tuple) and t[0] == 'un' and t[1] == 'Not':
                t, neg = t[2], not neg
            if isinstance(t, tuple) and t[0] == 'call' and t[1].endswith('InstrLocId::is_default'):
                d.append((t[2][0], (not v) if neg else v))
        ins = []
        for e in w.trace:
            if e['kind'] != 'call':
                continue
            if e['callee'].endswith('BTreeMap::insert') and len(e['args']) == 3:
                ins.append((e['args'][1], e['args'][2]))
            elif e['callee'].endswith('::extend') and len(e['args']) == 2:
                sq = e['args'][1]
                if isinstance(sq, tuple) and sq[0] == 'seq' and isinstance(sq[2], tuple) and sq[2][0] == 'tup' and len(sq[2][1]) == 2:
                    ins.append((sq[2][1][0], sq[2][1][1]))
        if not d:
            continue
        key, isdef = d[0]
        mine = [(k, v) for k, v in ins if k == key]
        if isdef:
            ins_default = bool(mine) if ins_default in (None, False) else ins_default
        elif w.outcome == 'return' or mine:
            ins_real = bool(mine) if ins_real in (None, True) else ins_real
            for k, v in mine:
                # value = the recorded offset of the same entry + a rebasing offset
                kr = k[1] if k[0] == 'field' and k[2] == '0' else None
                if v[0] == 'bin' and v[1] == 'Add':
                    l, r = v[2], v[3]
                    for x, y in ((l, r), (r, l)):
                        if kr is not None and x == ('field', kr, '1'):
                            val_ok = True
                            offset_terms.append(y)
    if ins_default is False and ins_real is True and val_ok:
        res.ok('filter/synthetic-locations', {'insert': '(src, dst + code_offset) iff !src.is_default()'})
    else:
        res.bad('filter/synthetic-locations', 'the instruction map must receive (src, dst + code offset) exactly for locations '
                'that are not the default (synthetic) one (default inserted: %s, real inserted: %s, value ok: %s)'
                % (ins_default, ins_real, val_ok))
    # ---- every body appended to the code section advances the cursor and gets its range
    uncounted = None
    for w in ws:
        if w.outcome != 'return':
            continue
        raws = [e for e in w.trace if e['kind'] == 'call' and e['callee'].endswith('CodeSection::raw')]
        rngs = range_pushes(w)
        curs = cursor_updates(w, rngs)
        if raws and (not rngs or not curs):
            at = [show(k[1])[:70] for k, v in w.assumptions if isinstance(k, tuple) and k and k[0] == 'atom']
            uncounted = at[-2:]
    if uncounted is not None:
        res.bad('provenance/every-body-counted', 'a function body is appended to the code section on a path where it neither advances the '
                'offset cursor nor gets a function range (when %s): every later function is reported too low' % uncounted)
    else:
        res.ok('provenance/every-body-counted', {'rule': 'CodeSection::raw => cursor update and function_ranges push in the same world'})
    # ---- (e) provenance of everything published
    w = max([x for x in ws if x.outcome == 'return'] or ws, key=lambda x: len(x.trace))
    items = []
    for t in offset_terms[:1]:
        items.append(('instruction offsets (rebase)', t))
    for e in w.trace:
        if e['kind'] == 'store' and e['callee'].endswith('code_section_start'):
            items.append(('code_section_start', e['args'][1]))
        for e2, rng in range_pushes(w):
            if e2 is e:
                items.append(('function_ranges.start', cfield(rng, 'start')))
                items.append(('function_ranges.end', cfield(rng, 'end')))
        if e in cursor_updates(w, range_pushes(w)):
            items.append(('running cursor ' + e['callee'], e['args'][1]))
    names = set(n.split(' ')[0] for n, _ in items)
    need = {'instruction', 'code_section_start', 'function_ranges.start', 'function_ranges.end'}
    if not need <= names:
        res.bad('provenance/missing', 'ModuleFunctions::emit no longer publishes the offsets the rule knows (missing %s)' % sorted(need - names))
        return
    for name, t in items:
        problems = []
        leaves_ok(t, problems)
        key = 'provenance/' + name.split(' ')[0]
        if problems:
            res.bad(key + '/' + re.sub(r'\W+', '_', problems[0])[:40],
                    '%s is computed with %s: offsets must be sums/differences of encoder measurements only (every length prefix in wasm '
                    'is a variable-length LEB)' % (name, '; '.join(sorted(set(problems)))))
        else:
            res.ok(key, {'offset': name, 'term': show(t)[:160]})


# ---------------------------------------------------------------- (g)
def parse_mapping(F, res):
    p = 'module::functions::local_function::LocalFunction::parse'
    from heval import local_policy
    nop = local_policy(F, p, public_events=True, events=[r'BTreeMap::insert$', r'append_instruction$'])
    args = [sym(n) for n in ('module', 'indices', 'id', 'ty', 'args', 'body', 'on_instr_pos', 'validator')]
    ws = Evaluator(F, nop, max_worlds=20000).run_fn(p, args)
    n_ok = 0
    bad = None
    for w in ws:
        if w.outcome != 'return':
            continue
        v = w.value
        if not (isinstance(v, tuple) and v and v[0] == 'ctor' and v[2] == 'Ok'):
            continue
        tr = [e for e in w.trace if e['kind'] == 'call']
        apps = [e for e in tr if e['callee'].endswith('append_instruction')]
        ins = [e for e in tr if e['callee'].endswith('BTreeMap::insert')]
        if not apps:
            continue
        if len(ins) != len(apps):
            cond = [(show(k), vv[2]) for k, vv in w.assumptions if isinstance(vv, tuple) and vv and vv[0] == 'ctor' and vv[1] == 'wasmparser::Operator']
            bad = 'an operator is read without its input offset being recorded in instruction_mapping (%s)' % (cond[:1] or 'some path')
            continue
        i, a = ins[0], apps[0]
        k, val = show(i['args'][1]), i['args'][2]
        if not (i['loops'] == a['loops'] and k.startswith('(original_position(body) Sub ') and 'code_section_offset' in k and val == a['args'][2]):
            bad = 'the recorded pair must be (position - code section offset, the location handed to append_instruction); got (%s, %s)' % (k[:70], show(val)[:40])
            continue
        n_ok += 1
    if bad:
        res.bad('parse/instruction-mapping', 'LocalFunction::parse: ' + bad)
    elif n_ok:
        res.ok('parse/instruction-mapping', {'per_operator': 'instruction_mapping.insert(pos - code_section_offset, loc), unconditionally', 'worlds': n_ok})
    else:
        res.error('LocalFunction::parse: no analysable operator loop')


# ---------------------------------------------------------------- (h)
def dwarf_closure(F, res):
    p = '<module::debug::ModuleDebugData as emit::Emit>::emit'
    h = F.hir.get(p)
    if not h:
        res.bad('dwarf/missing', 'ModuleDebugData::emit not found')
        return
    # The address closures are evaluated where they are defined: the enclosing emit is run first (helpers looked
    # through, captured locals resolved), then each closure is applied to symbolic arguments.
    from heval import local_policy, UNIT
    pol = local_policy(F, p, public_events=True, split_try='option')
    found = {}

    def run_emit(st):
        try:
            st.call_path(p, [sym('self'), sym('cx')], None)
        except Exception as e:
            if e.__class__.__name__ not in ('ReturnEx', 'PanicEx', 'Pruned'):
                raise

    def t0(st):
        run_emit(st)
        for k, (c, env, fr) in st.closures.items():
            found[k] = len(c['params'])
        return UNIT
    try:
        Evaluator(F, pol).run(t0)
    except EvalError as e:
        res.error('ModuleDebugData::emit not analysable: %s' % e)
        return
    dead = None
    dc = getattr(F, 'consts', {}).get('module::debug::dwarf::DEAD_CODE')
    if dc is not None:
        try:
            v = Evaluator(F, Policy()).run(lambda st: st.expr(dc['body'], {}))
            if v and v[0].value is not None and v[0].value[0] == 'lit':
                dead = v[0].value[1]
        except EvalError:
            pass
    CONV = r'find_address\(new\(cx\.code_transform\), find_address\(new\(cx\.module\.funcs\), \(arg0 as usize\), [^()]+\)\)!?'
    REB = r'Option::Some\(Address::Constant\(\(\(' + CONV + r' Sub cx\.code_transform\.code_section_start\) as u64\)\)\)'
    got_rebase = got_tomb = False
    rebase_why = tomb_why = None
    for ck, n in sorted(found.items()):
        def thunk(st, ck=ck, n=n):
            run_emit(st)
            if ck not in st.closures:
                return ('lit', 'closure-not-created', '')
            return st.call_closure(('closure', ck), [sym('arg%d' % i) for i in range(n)], None)
        try:
            ws = Evaluator(F, pol).run(thunk)
        except EvalError:
            continue
        ws = [w for w in ws if w.outcome == 'return' and 'closure-not-created' not in show(w.value)]
        vals = set(show(w.value) for w in ws)
        if not any('Address::Constant' in v for v in vals):
            continue

        def conv_state(w):
            for k, v in w.assumptions:
                if not (isinstance(k, tuple) and k and k[0] == 'atom') and re.match('^' + CONV + '$', show(k)) and isinstance(v, tuple):
                    return v[2]
            return None
        if n == 2:
            # convert_address(address, preference)
            good = True
            for w in ws:
                st_, v = conv_state(w), show(w.value)
                if st_ == 'None':
                    good = good and v == 'Option::None'
                elif st_ == 'Some':
                    good = good and re.match('^' + REB + '$', v) is not None
                else:
                    good = False
                if not good and rebase_why is None:
                    rebase_why = 'conversion result %s gives %s' % (st_, v[:120])
            got_rebase = got_rebase or (good and len(ws) >= 2)
        elif n == 1:
            # the gimli callback: 0 / DEAD_CODE pass through, otherwise convert or tombstone
            good = dead is not None
            kinds = set()
            for w in ws:
                at = {show(k[1]): v for k, v in w.assumptions if isinstance(k, tuple) and k[0] == 'atom' and 'arg0' in show(k[1])}
                is0 = at.get('(arg0 Eq 0)')
                isd = at.get('(arg0 Eq %s)' % dead)
                v = show(w.value)
                if is0 is True or isd is True:
                    ok1 = v == 'Option::Some(Address::Constant(arg0))'
                    kinds.add('pass')
                else:
                    st_ = conv_state(w)
                    if st_ == 'None':
                        ok1 = v == 'Option::Some(Address::Constant(%s))' % dead
                        kinds.add('tomb')
                    elif st_ == 'Some':
                        ok1 = re.match('^' + REB + '$', v) is not None
                        kinds.add('conv')
                    else:
                        ok1 = False
                if not ok1 and tomb_why is None:
                    tomb_why = 'when %s the callback returns %s' % (sorted(at.items()), v[:120])
                good = good and ok1
            got_tomb = got_tomb or (good and kinds == {'pass', 'tomb', 'conv'})
    if got_rebase:
        res.ok('dwarf/rebase', {'convert_address': 'output address - code_transform.code_section_start'})
    else:
        res.bad('dwarf/rebase', 'converted DWARF addresses must be rebased by code_transform.code_section_start'
                + (' (%s)' % rebase_why if rebase_why else ''))
    if got_tomb:
        res.ok('dwarf/tombstone', {'unconvertible_address': 'DEAD_CODE (0xFFFFFFFF); 0 and DEAD_CODE pass through'})
    else:
        res.bad('dwarf/tombstone', 'an address that cannot be converted must be replaced by the tombstone DEAD_CODE, never left as it was'
                + (' (%s)' % tomb_why if tomb_why else ''))


# ---------------------------------------------------------------- (d) R-ZERODEC
def root_of(body, local, depth=0):
    """follow copies / casts back to the defining local"""
    seen = set()
    cur = local
    while cur not in seen:
        seen.add(cur)
        nxt = None
        for b in body['blocks']:
            for s in b['stmts']:
                if s.get('s') == 'Assign' and s['p'] == [cur] and s['r']['rv'] in ('Use', 'Cast'):
                    pl = operand_place(s['r']['a'])
                    if pl is not None and len(pl) == 1:
                        nxt = pl[0]
        if nxt is None:
            break
        cur = nxt
    return cur


def zerodec(F, res):
    n_sub = 0
    for path, body in F.mir.items():
        if not path.startswith('module::debug'):
            continue
        c = None
        zero_tests = {}   # root -> [nonzero-edge target blocks]
        for i, b in enumerate(body['blocks']):
            for s in b['stmts']:
                if s.get('s') == 'Assign' and s['r']['rv'] == 'BinaryOp' and s['r']['op'] in ('Eq', 'Ne') and len(s['p']) == 1:
                    a, bb = s['r']['a'], s['r']['b']
                    const = bb.get('k') or a.get('k')
                    var = operand_place(a) or operand_place(bb)
                    if const and var is not None and len(var) == 1 and re.match(r'^(const )?0_u', const.get('v', '')):
                        zero_tests.setdefault(root_of(body, var[0]), []).append((i, s['p'][0], s['r']['op']))
        if not zero_tests:
            continue
        c = Cfg(body)
        # nonzero edges: switchInt on the bool
        nz_targets = {}
        for r, tests in zero_tests.items():
            for (blk, boolloc, op) in tests:
                for j, b in enumerate(body['blocks']):
                    t = b['term']
                    if t['t'] == 'SwitchInt':
                        pl = operand_place(t['discr'])
                        if pl is not None and len(pl) == 1 and root_of(body, pl[0]) == boolloc or (pl == [boolloc]):
                            zero = [x[1] for x in t['targets'] if x[0] == 0]
                            other = t['otherwise']
                            # Eq: bool false (0) means value != 0 ; Ne: bool true means value != 0
                            tgt = (zero[0] if zero else None) if op == 'Eq' else other
                            if tgt is not None:
                                nz_targets.setdefault(r, []).append(tgt)
        for i, b in enumerate(body['blocks']):
            for s in b['stmts']:
                if s.get('s') == 'Assign' and s['r']['rv'] == 'BinaryOp' and s['r']['op'] in ('Sub', 'SubWithOverflow', 'SubUnchecked'):
                    a, bb = s['r']['a'], s['r']['b']
                    var = operand_place(a)
                    const = bb.get('k')
                    if var is None or len(var) != 1 or not const or not re.match(r'^(const )?[1-9]\d*_u', const.get('v', '')):
                        continue
                    r = root_of(body, var[0])
                    if r not in zero_tests:
                        continue
                    n_sub += 1
                    guards = nz_targets.get(r, [])
                    safe = any(c.dominates(g, i) and len(c.pred[g]) == 1 for g in guards)
                    name = body['locals'][r].get('name') or '_%d' % r
                    key = 'zerodec/%s/%s' % (path.split('::')[-1], name)
                    if safe:
                        res.ok(key, {'fn': path, 'value': name, 'decrement': 'dominated by a != 0 test'})
                    else:
                        res.bad(key, '`%s` is compared with 0 in %s, yet `%s - %s` is computed on a path where it can still be 0 '
                                '(unsigned underflow: panic / wrong index)' % (name, path.split('::')[-1], name, const['v'].replace('const ', '').split('_')[0]),
                                '%s line %s' % (path, s.get('l')))
    if n_sub == 0:
        res.ok('zerodec/none', {'decrements_of_zero_tested_values': 0}, nontrivial=False)
