"""R-PAR: the `parallel` build differs from the serial one only where it is meant to, and
the parallel pipelines preserve order and share nothing.

Both cargo configurations (default, --features parallel) are analysed and compared:
 (p1) the function bodies whose callee multiset differs between the two configurations are exactly
      the users of `maybe_parallel!`; definitions that exist only in the parallel build are
      exactly the par_* accessors / parallel iterator impls.  Any other configuration-dependent
      code (a different sort, a different reduction) is reported;
 (p2) each pipeline that starts at into_par_iter (indexed) consists of order-preserving adaptors
      only and ends in collect::<Vec<_>>; each pipeline that starts at an unindexed par_iter*
      ends in a commutative reduction (any / all / count);
 (p3) no code reachable from the closures of those pipelines (inside the crate) touches a
      synchronisation or interior-mutability API (Mutex, RwLock, atomics, Cell, RefCell,
      thread_local, static mut): results cannot depend on scheduling through shared state.
The closures' Send + Sync + Fn bounds (checked by rustc itself) exclude unsynchronised mutation."""
import re
from collections import Counter
from registry import RuleResult
from heval import norm_path
from cfg import callee_name

PER_CONFIG = True
ORDER_PRESERVING = {'map', 'map_with', 'map_init', 'enumerate', 'zip', 'cloned', 'copied', 'rev', 'with_min_len', 'with_max_len'}
REDUCTIONS = {'any', 'all', 'count'}
SYNC = re.compile(r'std::sync::(Mutex|RwLock|atomic|Once|Condvar|mpsc)|std::cell::|core::cell::|thread_local|std::thread::|parking_lot|'
                  r'core::sync::atomic')
EXPECTED_USERS = 3     # parse_local_functions, ModuleFunctions::emit, ModuleData::emit_data_count (counted on the pinned tree)


def callee_multiset(body):
    c = Counter()
    for b in body['blocks']:
        t = b['term']
        if t['t'] in ('Call', 'TailCall'):
            k = t['func'].get('k') or {}
            n = k.get('fn')
            if n:
                c[norm_path(n)] += 1
    return c


def is_par_name(n):
    return bool(re.search(r'rayon|par_iter|into_par_iter|ParallelIterator|par_sort|par_bridge|par_extend|par_chunks', n))


def only_called_from_parallel_accessors(Fp, Fd, p, depth=0):
    """every caller of the parallel-only function `p` is itself a parallel-only accessor (par_iter*, ParIterMut impls) or
    another such helper"""
    from mirinline import callee_of
    callers = set()
    for q, b in Fp.mir.items():
        for blk in b['blocks']:
            t = blk['term']
            if t.get('t') == 'Call' and callee_of(t, Fp) == p:
                callers.add(q.split('::{closure')[0])
            # a function item passed as a value (`.filter(is_live)`) shows up as a constant operand
            for st in blk['stmts']:
                if p.split('::')[-1] in str(st) and p in str(st):
                    callers.add(q.split('::{closure')[0])
            if t.get('t') == 'Call' and p in str(t.get('args')):
                callers.add(q.split('::{closure')[0])
    callers.discard(p)
    if not callers:
        return False
    for c in callers:
        if c in Fd.mir:
            return False            # reachable from code that also exists in the serial build
        if re.search(r'par_iter|ParIterMut|ParallelIterator', c):
            continue
        if depth >= 3 or not only_called_from_parallel_accessors(Fp, Fd, c, depth + 1):
            return False
    return True


def run(ctx):
    res = RuleResult('R-PAR', 'parallel and serial builds differ only at the maybe_parallel! sites; pipelines are order preserving')
    res.floor = 6
    Fd = ctx.all_facts.get('default')
    Fp = ctx.all_facts.get('parallel')
    if Fd is None or Fp is None:
        res.error('both configurations are required (default and parallel)')
        return res
    if ctx.config != 'parallel':
        # the comparison is made once, from the parallel side
        res.floor = None
        return res
    users = []
    for p, bp in Fp.mir.items():
        bd = Fd.mir.get(p)
        if bd is None:
            # exists only with the feature
            if re.search(r'::par_iter\w*$|ParIterMut|par_iter', p) or 'ParallelIterator' in p or 'rayon' in p:
                res.ok('only-parallel/' + p, {'parallel_only_definition': p}, nontrivial=False)
            elif '{closure' in p and any(p.startswith(u) for u in users):
                pass
            else:
                # closures of par_* accessors etc.
                top = p.split('::{closure')[0]
                if re.search(r'par_iter|ParIterMut', top):
                    continue
                if only_called_from_parallel_accessors(Fp, Fd, top):
                    # a private helper of the parallel accessors (e.g. the liveness filter they share)
                    res.ok('only-parallel/' + p, {'parallel_only_helper_of_par_accessors': p}, nontrivial=False)
                    continue
                res.bad('only-parallel/' + p, 'the definition %s exists only in the parallel build' % p)
            continue
        cd, cp = callee_multiset(bd), callee_multiset(bp)
        if cd == cp:
            continue
        diff_p = cp - cd
        diff_d = cd - cp
        top = p.split('::{closure')[0]
        if any(is_par_name(n) for n in diff_p):
            users.append(top)
            # the only differences must be iterator plumbing
            other = [n for n in list(diff_p) + list(diff_d) if not (is_par_name(n) or re.search(
                r'IntoIterator::into_iter|Iterator::(map|collect|any|filter_map|next)|iter_local|::iter$|FromIterator|from_iter|Try::branch|'
                r'FromResidual|IntoParallelIterator|vec::IntoIter', n))]
            if other:
                res.bad('config-diff/%s/extra' % top, 'besides the iterator kind, %s also differs between the builds in: %s' % (top, sorted(set(other))[:4]))
        else:
            res.bad('config-diff/' + top, 'the body of %s differs between the serial and the parallel build although it does not use a '
                    'parallel iterator (differs in %s)' % (top, sorted(set(list(diff_p) + list(diff_d)))[:4]))
    for p in Fd.mir:
        if p not in Fp.mir and '{closure' not in p:
            res.bad('only-serial/' + p, 'the definition %s exists only in the serial build' % p)
    users = sorted(set(users))
    if len(users) >= EXPECTED_USERS:
        for u in users:
            res.ok('user/' + u, {'maybe_parallel_user': u})
    else:
        res.bad('users/missing', 'expected at least %d maybe_parallel! users, found %s' % (EXPECTED_USERS, users))
    # (p2) pipeline shapes from the parallel HIR
    n_pipes = 0
    for u in users:
        h = Fp.hir.get(u)
        if not h:
            continue
        parents = {}

        def index(n, parent):
            if isinstance(n, dict):
                parents[id(n)] = parent
                for v in n.values():
                    index(v, n)
            elif isinstance(n, list):
                for v in n:
                    index(v, parent)
        index(h['body'], None)
        starts = []

        def find(n):
            if isinstance(n, dict):
                if n.get('k') == 'MethodCall' and re.search(r'into_par_iter$|par_iter\w*$', n.get('method') or ''):
                    starts.append(n)
                for v in n.values():
                    find(v)
            elif isinstance(n, list):
                for v in n:
                    find(v)
        find(h['body'])
        for st in starts:
            n_pipes += 1
            chain = []
            cur = st
            while True:
                par = parents.get(id(cur))
                if par is not None and par.get('k') == 'MethodCall' and par.get('recv') is cur:
                    chain.append(par.get('method'))
                    cur = par
                else:
                    break
            indexed = st['method'] == 'into_par_iter'
            key = 'pipeline/%s/%s' % (u.split('::')[-1].replace('>', ''), st['method'])
            if indexed:
                good = chain and chain[-1] == 'collect' and all(m in ORDER_PRESERVING for m in chain[:-1]) \
                    and (cur.get('ty') or '').startswith('std::vec::Vec<')
                why = 'indexed pipeline must be order-preserving adaptors + collect::<Vec<_>>; got %s -> %s' % (chain, (cur.get('ty') or '')[:40])
            else:
                good = chain and chain[-1] in REDUCTIONS
                why = 'a pipeline over an unindexed parallel iterator must end in a commutative reduction (any/all/count); got %s' % chain
            if good:
                res.ok(key, {'user': u, 'pipeline': [st['method']] + chain})
            else:
                res.bad(key, why)
    if n_pipes < EXPECTED_USERS:
        res.bad('pipeline/missing', 'found only %d parallel pipelines' % n_pipes)
    # (p3) no shared mutable state in code reachable from the pipelines' closures
    for u in users:
        closures = [i for i, inst in enumerate(Fp.instances) if inst['def'].startswith(u + '::{closure')]
        if not closures:
            continue
        reach = Fp.reach_insts(closures)
        bad = set()
        for i in reach:
            inst = Fp.instances[i]
            if not inst['local']:
                if SYNC.search(inst['def']) and not inst['def'].startswith('log::'):
                    # who calls it?  only count calls made from crate-local code
                    bad.add(inst['def'])
        # restrict to callers that are local
        local_bad = set()
        succ = Fp.inst_succ()
        for i in reach:
            if not Fp.instances[i]['local']:
                continue
            for e in succ.get(i, []):
                d = Fp.instances[e[1]]['def']
                if SYNC.search(d):
                    local_bad.add((Fp.instances[i]['def'], d))
        if local_bad:
            for a, b in sorted(local_bad)[:5]:
                res.bad('shared-state/%s/%s' % (u.split('::')[-1], b), 'code run inside the parallel region of %s (%s) uses %s' % (u, a, b))
        else:
            res.ok('shared-state/' + u.split('::')[-1].replace('>', ''), {'user': u, 'instances_reachable_from_closures': len(reach), 'sync_apis': 0})
    return res
