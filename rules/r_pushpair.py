"""R-PUSHPAIR: the index maps are filled in lock-step with the binaries.

parse side  every entity a section parser allocates is pushed exactly once into the index
            space of its own kind, with the id that was allocated, and nothing is pushed that
            was not allocated in that iteration (the pre-reserved data path pushes nothing);
            locals: every ModuleLocals::add in parse_local_functions is followed by push_local of
            that id for the function being read.
emit side   every item an Emit impl appends to a wasm-encoder section is assigned the next index
            of its kind in that same iteration, with the id of that item; data segments get a
            running count (a counter that starts at 0 and is incremented by exactly one per item,
            unconditionally) over the same iterator that ModuleData::emit walks;
            emit_locals numbers parameters first, in order, then every remaining used local with a
            counter that is incremented once per local."""
import re
from registry import RuleResult
from heval import Evaluator, Policy, EvalError, sym, show, cfield, lit
import flowlib as fl
from flowlib import worlds_of, allocs, section_calls, cond_text

OPAQUE = ('const_expr::ConstExpr::eval', 'const_expr::ConstExpr::to_wasmencoder_type')
SPACE_OF_ARENA = {'memories': 'push_memory', 'tables': 'push_table', 'globals': 'push_global', 'funcs': 'push_func',
                  'elements': 'push_element', 'data': 'push_data'}
PARSERS = ['parse_memories', 'parse_tables', 'parse_globals', 'parse_imports', 'parse_elements', 'parse_data',
           'declare_local_functions', 'parse_types']
EMITTERS = [
    ('<module::memories::ModuleMemories as emit::Emit>::emit', 'MemorySection::memory', 'push_memory'),
    ('<module::tables::ModuleTables as emit::Emit>::emit', 'TableSection::table', 'push_table'),
    ('<module::globals::ModuleGlobals as emit::Emit>::emit', 'GlobalSection::global', 'push_global'),
    ('<module::elements::ModuleElements as emit::Emit>::emit', None, 'push_element'),
    ('<module::types::ModuleTypes as emit::Emit>::emit', 'TypeSection::function', 'push_type'),
]
IMPORT_PUSH = {'Function': 'push_func', 'Table': 'push_table', 'Memory': 'push_memory', 'Global': 'push_global'}


def is_ok(w):
    v = w.value
    return w.outcome == 'return' and (v == ('tup', ()) or (isinstance(v, tuple) and v and v[0] == 'ctor' and v[2] == 'Ok'))


def run(ctx):
    F = ctx.F
    res = RuleResult('R-PUSHPAIR', 'index maps are filled in lock-step with what is parsed / emitted')
    res.floor = 16
    pol = fl.policy(no_inline=OPAQUE + ('ty::ValType::parse', 'ty::ValType::to_wasmencoder_type'))
    try:
        parse_side(F, res, pol)
        emit_side(F, res, pol)
        data_indices(F, res)
        locals_parse(F, res)
        locals_emit(F, res)
        local_lookup(F, res)
        map_append_only(F, res)
    except (EvalError, KeyError) as e:
        res.error('not analysable: %s' % e)
    return res


def parse_side(F, res, pol):
    for fn in PARSERS:
        _, ws = worlds_of(F, fn, [sym('self'), sym('section'), sym('ids')], pol, key='pp')
        n_ok = 0
        bad = None
        for w in ws:
            if not is_ok(w):
                continue
            al = [(a, r, e) for a, r, e in allocs(w) if a in SPACE_OF_ARENA]
            ps = fl.pushes(w, 'parse')
            tins = [e for e in w.trace if e['kind'] == 'call' and e['callee'].endswith('ArenaSet::insert')]
            used = [False] * len(ps)
            for a, r, e in al:
                want = SPACE_OF_ARENA[a]
                ids = {show(cfield(r, 'id'))} if r[0] == 'ctor' and cfield(r, 'id') is not None else set()
                ids.add('alloc(%s, %s)' % (show(e['args'][0]), show(r)))
                hits = [i for i, (n, pe) in enumerate(ps) if n == want and show(pe['args'][1]) in ids]
                if len(hits) != 1:
                    bad = '%s: a new %s entity is pushed %d times into its index space [%s]' % (fn, a, len(hits), cond_text(w)[:120])
                for i in hits:
                    used[i] = True
            for t in tins:
                hits = [i for i, (n, pe) in enumerate(ps) if n == 'push_type' and show(pe['args'][1]).startswith('insert(')]
                if len(hits) != 1:
                    bad = '%s: a parsed type is pushed %d times into the type index space' % (fn, len(hits))
                for i in hits:
                    used[i] = True
            for i, u in enumerate(used):
                if not u:
                    bad = '%s: %s(%s) has no entity allocated in this iteration [%s]' % (fn, ps[i][0], show(ps[i][1]['args'][1])[:60], cond_text(w)[:120])
            # order inside the iteration: a push uses the id of the record just allocated (same loop)
            for n, pe in ps:
                if not pe['loops']:
                    bad = '%s: %s happens outside the per-entry loop' % (fn, n)
            n_ok += 1
        if bad:
            res.bad('parse/' + fn, bad)
        elif n_ok:
            res.ok('parse/' + fn, {'parser': fn, 'worlds': n_ok, 'rule': 'one push per allocated entity, same id, own index space'})
        else:
            res.error('%s: no successful world' % fn)
    # reserve_data: one push per reserved segment
    _, ws = worlds_of(F, 'reserve_data', [sym('self'), sym('count'), sym('ids')], pol, key='pp')
    good = False
    for w in ws:
        al = [a for a in allocs(w) if a[0] == 'data']
        ps = [p for p in fl.pushes(w, 'parse') if p[0] == 'push_data']
        if len(al) == 1 and len(ps) == 1:
            ids = {show(cfield(al[0][1], 'id')), 'alloc(%s, %s)' % (show(al[0][2]['args'][0]), show(al[0][1]))}
            good = bool(ps[0][1]['loops']) and 'count' in show(ps[0][1]['loops'][-1]) and show(ps[0][1]['args'][1]) in ids
    if good:
        res.ok('parse/reserve_data', {'parser': 'reserve_data', 'rule': 'one reserved segment and one push per counted index'})
    else:
        res.bad('parse/reserve_data', 'reserve_data must allocate and push exactly one placeholder per declared data segment')


def emit_side(F, res, pol):
    for impl, meth, push in EMITTERS:
        _, ws = worlds_of(F, impl, [sym('self'), sym('cx')], pol, key='pp')
        n_ok = 0
        bad = None
        for w in ws:
            if w.outcome != 'return':
                continue
            calls = [c for c in section_calls(w) if (meth is None or c['callee'].endswith(meth)) and c['loops']]
            ps = [(n, e) for n, e in fl.pushes(w, 'emit') if n == push]
            if not calls and not ps:
                continue
            if len(calls) != 1 or len(ps) != 1:
                bad = '%s appends %d item(s) and assigns %d index(es) per iteration' % (impl.split(' as ')[0][1:], len(calls), len(ps))
                continue
            inst = fl.loop_instances(w.trace)
            if ps[0][1]['loops'] != calls[0]['loops'] or inst.get(id(ps[0][1])) != inst.get(id(calls[0])):
                bad = 'the index is not assigned in the same iteration that appends the item (assignment order and emission order ' \
                      'can differ)'
                continue
            # the pushed id belongs to the item being appended: both project the same loop element
            pid = show(ps[0][1]['args'][1])
            elem = show(('elem', calls[0]['loops'][-1])) if False else None
            item_terms = ' '.join(show(a) for a in calls[0]['args'][1:])
            root = re.match(r'^(elem\(.*?\)\)?)(\.1)?(\.id|\.0)?$', pid)
            base = pid.rsplit('.', 1)[0] if '.' in pid else pid
            if base not in item_terms and pid.replace('.0', '.1') not in item_terms and pid.rsplit('.id', 1)[0] not in item_terms:
                bad = 'the pushed id %s is not the id of the item being appended (%s)' % (pid[:60], item_terms[:80])
                continue
            n_ok += 1
        name = impl.split(' as ')[0][1:].split('::')[-1]
        if bad:
            res.bad('emit/' + name, bad)
        elif n_ok:
            res.ok('emit/' + name, {'emitter': name, 'worlds': n_ok, 'rule': 'one append and one index per iteration, same item'})
        else:
            res.error('%s: no emitting world' % impl)
    # imports: push into the space of the import's own kind, same iteration as the append
    _, ws = worlds_of(F, '<module::imports::ModuleImports as emit::Emit>::emit', [sym('self'), sym('cx')], pol, key='pp')
    seen = set()
    bad = None
    for w in ws:
        k = [v[2] for kk, v in w.assumptions if isinstance(v, tuple) and v and v[0] == 'ctor' and v[1] == 'module::imports::ImportKind']
        calls = [c for c in section_calls(w) if c['callee'].endswith('ImportSection::import')]
        if not k or not calls:
            continue
        ps = fl.pushes(w, 'emit')
        want = IMPORT_PUSH.get(k[0])
        if len(ps) == 1 and ps[0][0] == want and show(ps[0][1]['args'][1]).endswith('.kind.%s.0' % k[0]) and len(calls) == 1:
            seen.add(k[0])
        else:
            bad = 'an imported %s is assigned %s' % (k[0], [(n, show(e['args'][1])[:50]) for n, e in ps])
    if bad:
        res.bad('emit/ModuleImports', bad)
    elif seen == set(IMPORT_PUSH):
        res.ok('emit/ModuleImports', {'emitter': 'ModuleImports', 'kinds': sorted(seen), 'rule': 'one index of the import\'s own kind per import'})
    else:
        res.bad('emit/ModuleImports/missing', 'import kinds without index assignment: %s' % sorted(set(IMPORT_PUSH) - seen))


def data_indices(F, res):
    from heval import local_policy
    nop = local_policy(F, 'module::data::ModuleData::emit_data_count', public_events=True)
    ws = Evaluator(F, nop).run_fn('module::data::ModuleData::emit_data_count', [sym('self'), sym('cx')])
    good = None
    for w in ws:
        sd = [e for e in w.trace if e['kind'] == 'call' and e['callee'].endswith('set_data_index')]
        if not sd:
            # index assignment may be skipped only when there are no segments at all: whether a DataCount section is
            # needed must not decide whether data segments get their index (the name section and custom sections look
            # indices up regardless)
            at = {show(k[1]): v for k, v in w.assumptions if isinstance(k, tuple) and k and k[0] == 'atom'}
            empty = any(v is True and re.search(r'len\(self\.arena\) Eq 0|is_empty\(self', k) for k, v in at.items())
            if w.outcome == 'return' and not empty:
                res.bad('emit/data-indices/conditional', 'emit_data_count returns without assigning data indices although the module '
                        'has data segments (when %s): later index lookups (name section, custom sections) find nothing'
                        % sorted(at.items())[:3])
            continue
        ups = {e['callee']: e for e in w.trace if e['kind'] == 'loop_update'}
        a = sd[0]['args']
        idt, cnt = a[1], a[2]
        okk = len(sd) == 1 and idt[0] == 'call' and idt[1].endswith('Data::id') and len(idt[2]) == 1
        if okk:
            pc = fl.position_counter(cnt, idt[2][0], ups)
            okk = pc is not None and show(pc[0]) == 'iter(self)' and pc[1][0] == 'lit' and pc[1][1] == 0
        good = okk if good is None else (good and okk)
    # ModuleData::emit walks the same iterator
    ws2 = Evaluator(F, nop).run_fn('<module::data::ModuleData as emit::Emit>::emit', [sym('self'), sym('cx')])
    same_iter = False
    for w in ws2:
        for c in section_calls(w):
            if c['loops'] and show(c['loops'][-1]) == 'iter(self)':
                same_iter = True
    if good and same_iter:
        res.ok('emit/data-indices', {'data': 'index = running count (0, +1 per segment) over ModuleData::iter(), the iterator ModuleData::emit walks'})
    else:
        res.bad('emit/data-indices', 'a data segment\'s index must be its position among the segments that ModuleData::emit writes '
                '(a counter from 0, +1 per segment, over the same iterator); deleted arena slots must not count')


def locals_parse(F, res):
    from heval import local_policy
    c = [p for p in F.hir if p.endswith('::parse_local_functions')]
    nop = local_policy(F, c[0], public_events=True)
    ws = Evaluator(F, nop).run_fn(c[0], [sym('self'), sym('functions'), sym('indices'), sym('on_instr_pos')])
    n_ok = 0
    bad = None
    for w in ws:
        if w.outcome != 'return':
            continue
        tr = [e for e in w.trace if e['kind'] == 'call']
        adds = [i for i, e in enumerate(tr) if e['callee'].endswith('ModuleLocals::add')]
        for i in adds:
            nxt = [e for e in tr[i + 1:i + 3] if e['callee'].endswith('push_local')]
            if not nxt or nxt[0]['args'][2] != ('call', tr[i]['callee'], tr[i]['args']) and 'add(self.locals' not in show(nxt[0]['args'][2]):
                bad = 'a local is created without being pushed into the function\'s local index space'
            elif 'get_func(indices' not in show(nxt[0]['args'][1]):
                bad = 'a local is pushed for a different function than the one being read'
        if adds:
            n_ok += 1
    if bad:
        res.bad('parse/locals', bad)
    elif n_ok:
        res.ok('parse/locals', {'parser': 'parse_local_functions', 'rule': 'locals.add -> push_local(function id, that local), params first'})
    else:
        res.error('parse_local_functions: no world creating locals')
    # the parameter locals handed to the body parser (they become LocalFunction.args, whose positions are the emitted
    # parameter indices) are the locals created for the type's params, one each, in the type's order
    bad = None
    n = 0
    for w in ws:
        for e in w.trace:
            if e['kind'] != 'call' or not e['callee'].endswith('LocalFunction::parse'):
                continue
            cands = [a for a in e['args'] if isinstance(a, tuple) and a and a[0] == 'seq' and 'params(' in show(a[1])]
            if len(cands) != 1:
                bad = 'the body parser is not handed the list of locals created for the parameters'
                continue
            a = cands[0]
            el = show(a[2])
            if not (re.match(r'^add\(self\.locals, elem\(', el) and show(a[1]) in el):
                bad = 'the parameter locals are %s, not one new local per parameter type' % el[:80]
            elif fl.reorders(w, a):
                bad = 'the list of parameter locals is reordered (%s) before the body is parsed' % fl.reorders(w, a)[0]['callee'].split('::')[-1]
            else:
                n += 1
    if bad:
        res.bad('parse/params-in-order', 'parse_local_functions: ' + bad + ': parameter i of the function would no longer be local i')
    elif n:
        res.ok('parse/params-in-order', {'args': 'seq[locals.add(ty) | ty in params(type)] in order'})
    elif any('rayon' in str(b['term'].get('func')) for b in F.mir.get(c[0], {'blocks': []})['blocks'] if b['term'].get('t') == 'Call') or \
            any('rayon' in q for q in F.mir if q.startswith(c[0])):
        # the parallel build hands the bodies to rayon inside a closure the evaluator does not enter; the two builds differ
        # only at the maybe_parallel! sites (R-PAR), and the serial build is decided above
        res.note('parse/params-in-order is decided on the serial configuration')
    else:
        res.error('parse_local_functions: no call of the body parser found')


def map_append_only(F, res):
    """the parse-time index map only grows: what `on_parse` (and the name / custom-section parsers) are handed is everything
    that was pushed.  Scan every body for a call that can take something out of a field of IndicesToIds."""
    from cfg import callee_name
    from heval import norm_path
    REMOVERS = {'clear', 'remove', 'truncate', 'drain', 'take', 'retain', 'pop', 'swap_remove', 'split_off', 'remove_entry',
                'shrink_to', 'replace', 'swap', 'extract_if', 'retain_mut', 'dedup'}
    offenders = []
    n_calls = 0
    for p, body in F.mir.items():
        locs = body['locals']
        # locals that are (references to) fields of an IndicesToIds
        fieldrefs = {}
        for b in body['blocks']:
            for st in b['stmts']:
                if st.get('s') == 'Assign' and len(st['p']) == 1:
                    r = st['r']
                    if r.get('rv') == 'Ref' and r.get('p'):
                        pl = r['p']
                        bty = locs[pl[0]]['ty'] if pl[0] < len(locs) else ''
                        flds = [x for x in pl[1:] if isinstance(x, str) and x.startswith('.')]
                        if 'parse::IndicesToIds' in bty and flds:
                            fieldrefs[st['p'][0]] = flds[0]
                    # whole-field assignment: map.field = ..
                if st.get('s') == 'Assign' and len(st['p']) >= 2:
                    pl = st['p']
                    bty = locs[pl[0]]['ty'] if pl[0] < len(locs) else ''
                    flds = [x for x in pl[1:] if isinstance(x, str) and x.startswith('.')]
                    if 'parse::IndicesToIds' in bty and bty.lstrip('&').startswith(('mut ', "'")) is not None and len(flds) == 1 \
                            and pl[-1] == flds[0] and '&' in bty:
                        offenders.append((p, 'assignment to ' + flds[0]))
        for b in body['blocks']:
            t = b['term']
            if t.get('t') != 'Call':
                continue
            n = norm_path(callee_name(t) or '')
            last = n.split('::')[-1]
            for a in t.get('args') or []:
                pl = a.get('m') or a.get('c')
                if pl and len(pl) == 1 and pl[0] in fieldrefs:
                    n_calls += 1
                    if last in REMOVERS or (n.startswith('std::mem::') and last in ('take', 'replace', 'swap')):
                        offenders.append((p, '%s on %s' % (last, fieldrefs[pl[0]])))
    if offenders:
        for p, what in offenders[:4]:
            res.bad('parse/index-map-append-only/%s' % p.split('::')[-1], 'the parse-time index map loses entries in %s (%s): whoever is handed '
                    'the map afterwards (on_parse, name and custom section parsing) no longer sees every pushed entity' % (p, what))
    elif n_calls < 8:
        res.error('index-map scan saw only %d calls on fields of IndicesToIds (anchor lost?)' % n_calls)
    else:
        res.ok('parse/index-map-append-only', {'calls_on_index_map_fields': n_calls, 'removals': 0})


def local_lookup(F, res):
    """IndicesToIds::get_local(function, index) answers from that function's own list, bounded by that list: an index
    past a function's locals is an error, it never reaches another function's locals"""
    from heval import local_policy
    p = 'parse::IndicesToIds::get_local'
    if p not in F.hir:
        res.error('anchor lost: IndicesToIds::get_local')
        return
    ws = Evaluator(F, local_policy(F, p, events=[r'^std::'], split_try='all')).run_fn(p, [sym('self'), sym('function'), sym('index')])
    good = None
    why = None
    for w in ws:
        v = w.value
        if w.outcome != 'return' or not (isinstance(v, tuple) and v and v[0] == 'ctor' and v[2] == 'Ok'):
            continue
        x = cfield(v, '0')
        while x[0] == 'ok':
            x = x[1]
        # x = <per-function container>.get(index) / container[index]
        okk = x[0] == 'call' and x[1].split('::')[-1] in ('get', 'index') and len(x[2]) == 2
        if okk:
            cont, idx = x[2]
            while cont[0] == 'ok':
                cont = cont[1]
            while idx[0] == 'cast':
                idx = idx[1]
            per_fn = cont[0] == 'call' and cont[1].split('::')[-1] in ('get', 'index') and len(cont[2]) == 2 \
                and show(cont[2][0]).startswith('self.') and cont[2][1] == sym('function')
            okk = per_fn and idx == sym('index')
        if not okk:
            why = show(x)[:120]
        good = okk if good is None else (good and okk)
    if good:
        res.ok('parse/local-lookup', {'get_local': 'locals[function][index], both lookups bounded'})
    else:
        res.bad('parse/local-lookup', 'IndicesToIds::get_local must answer from the list of that function at that index (got %s): '
                'an out-of-range local index would otherwise name a local of another function' % (why or 'no successful path'))


def locals_emit(F, res):
    from heval import local_policy
    p = 'module::functions::local_function::LocalFunction::emit_locals'
    nop = local_policy(F, p, public_events=True, events=[r'HashMap::insert$'])
    ws = Evaluator(F, nop).run_fn(p, [sym('self'), sym('module')])
    good = False
    why = 'no analysable world'
    for w in ws:
        ins = [e for e in w.trace if e['kind'] == 'call' and e['callee'].endswith('HashMap::insert') and len(e['args']) == 3
               and e['loops']]
        c0 = ins[0]['args'][2] if ins else None
        cname = c0[2][2][1] if (c0 is not None and c0[0] == 'call' and c0[1] == 'loopvar') else None
        ups = [e for e in w.trace if e['kind'] == 'loop_update' and e['callee'] == cname]
        if len(ins) == 1 and ins[0]['loops']:
            # one numbering loop over `args` chained with the remaining locals: parameters first, then the rest, one
            # counter from 0 incremented once per local (a counter local, zip with 0.., or enumerate)
            e = ins[0]
            updict = {u['callee']: u for u in w.trace if u['kind'] == 'loop_update'}
            pc = fl.position_counter(e['args'][2], e['args'][1], updict)
            src = show(pc[0]) if pc else show(e['loops'][-1])
            chained = re.match(r'^(cloned\(|copied\()?chain\((iter\()?self\.args\)?, ', src) is not None
            if pc is not None and chained and pc[1][0] == 'lit' and pc[1][1] == 0:
                good = True
                continue
            why = 'a single numbering loop must walk self.args first, then the other locals, counting from 0 by 1: %s' % src[:80]
            good = False
            break
        if len(ins) < 2:
            continue
        first, second = ins[0], ins[-1]
        c1 = first['args'][2]
        okk = show(first['loops'][-1]).endswith('self.args') and first['args'][1] == ('elem', first['loops'][-1]) \
            and c1[0] == 'call' and c1[1] == 'loopvar' and c1[2][1][0] == 'lit' and c1[2][1][1] == 0
        if not okk:
            why = 'parameters are not numbered 0.. in order of self.args: %s' % show(c1)[:80]
            good = False
            break
        def counter_update(lv, upd):
            if upd[0] == 'bin' and upd[1] == 'Add' and upd[2] == lv and upd[3][0] == 'lit' and upd[3][1] == 1:
                return True
            # an outer loop whose body is an inner counting loop started from the outer counter
            if upd[0] == 'call' and upd[1] == 'loop_result':
                lv2, upd2 = upd[2]
                return lv2[0] == 'call' and lv2[1] == 'loopvar' and lv2[2][1] == lv and counter_update(lv2, upd2)
            return False
        up_ok = all(counter_update(u['args'][0], u['args'][1]) for u in ups)
        c2 = second['args'][2]
        cont = 'loop_result' in show(c2) and cname in show(c2)
        if not (up_ok and len(ups) >= 2 and cont):
            why = 'the slot counter is not incremented exactly once per numbered local, continuing after the parameters'
            good = False
            break
        good = True
    if good:
        res.ok('emit/locals', {'emit_locals': 'params get 0..n in order; every other used local gets the next slot, counter +1 each'})
    else:
        res.bad('emit/locals', 'emit_locals: ' + why)
    # which locals are "the remaining ones": a used local is set aside for a declared slot exactly when it is not one of
    # self.args - decided by a membership test against self.args, not by where the local sits in some order (ids of
    # parameters are not always smaller than ids of other locals: replace_imported_func creates the parameters last)
    ws2 = Evaluator(F, local_policy(F, p, public_events=True, events=[r'HashMap::insert$', r'Vec::<T, A>::push$|Vec::push$|VecDeque::push_back$'])) \
        .run_fn(p, [sym('self'), sym('module')])
    kept = skipped_when_arg = 0
    bad = None
    for w in ws2:
        pushes = [e for e in w.trace if e['kind'] == 'call' and re.search(r'::(push|push_back)$', e['callee']) and e['loops']
                  and e['args'][-1][0] == 'elem']
        mem = {}
        for k, v in w.assumptions:
            if isinstance(k, tuple) and k and k[0] == 'atom' and isinstance(v, bool):
                t, val = k[1], v
                while t[0] == 'un' and t[1] == 'Not':
                    t, val = t[2], not val
                if 'self.args' in show(t):
                    mem[show(t)] = val
        for e in pushes:
            el = show(e['args'][-1])
            tests = [v for t, v in mem.items() if el in t]
            if not tests:
                bad = 'the local %s is set aside for a declared slot without testing whether it is one of self.args' % el[:60]
            elif any(tests):
                bad = 'a local that is one of self.args is also given a declared slot'
            else:
                kept += 1
        if not pushes and any(mem.values()):
            skipped_when_arg += 1
    if bad:
        res.bad('emit/locals/non-params', 'emit_locals: ' + bad + ': a used local would be left without an index, or a parameter '
                'would be declared twice')
    elif kept and skipped_when_arg:
        res.ok('emit/locals/non-params', {'declared': 'used locals that fail the membership test against self.args'})
    else:
        res.error('emit_locals: no analysable selection of the non-parameter locals (kept=%d, skipped=%d)' % (kept, skipped_when_arg))
