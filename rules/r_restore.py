"""R-RESTORE: Module::emit_wasm gives back what it takes.

Every field of `*self` that emit_wasm moves out (mem::take / mem::replace / a plain
move of `(*self).field`) must be assigned back on every path from the move to the
function's return.  All other access to the module during emit goes through the
shared reference `EmitContext.module` (checked: its type is `&Module`, and no Emit
impl / emit helper takes `&mut Module`), so nothing else can be altered."""
from registry import RuleResult
from cfg import Cfg, callee_name, operand_place
from heval import norm_path
from mirutil import where

EW = 'module::Module::emit_wasm'


def self_field(place):
    """place rooted at *self -> field name, else None"""
    if place and place[0] == 1 and len(place) >= 3 and place[1] == '*' and place[2].startswith('.'):
        return place[2][1:]
    return None


def run(ctx):
    F = ctx.F
    res = RuleResult('R-RESTORE', 'emit_wasm restores every field of the module it moves out; the rest is borrowed shared')
    res.floor = 2
    if EW not in F.mir:
        res.error('anchor lost: Module::emit_wasm')
        return res
    from mirinline import inline_local
    body = inline_local(F, EW)   # helpers split off emit_wasm are part of it
    c = Cfg(body)
    # &mut borrows of self fields held in locals
    refs = {}
    changed = True
    while changed:
        changed = False
        for b in body['blocks']:
            for s in b['stmts']:
                if s.get('s') == 'Assign' and len(s['p']) == 1 and s['p'][0] not in refs:
                    r = s['r']
                    f = None
                    if r['rv'] == 'Ref' and r.get('mut'):
                        f = self_field(r['p'])
                        if f is None and r['p'][0] in refs and all(x == '*' for x in r['p'][1:]):
                            f = refs[r['p'][0]]        # reborrow
                    elif r['rv'] in ('Use', 'Cast'):
                        pl = operand_place(r['a'])
                        if pl is not None and len(pl) == 1 and pl[0] in refs:
                            f = refs[pl[0]]
                    if f:
                        refs[s['p'][0]] = f
                        changed = True
    taken = []   # (bb, field, how)
    for bb, t in c.calls():
        n = norm_path(callee_name(t) or '')
        if n in ('std::mem::take', 'std::mem::replace', 'std::mem::swap'):
            for a in t['args']:
                pl = operand_place(a)
                if pl is not None and len(pl) == 1 and pl[0] in refs:
                    taken.append((bb, refs[pl[0]], n.split('::')[-1]))
    for i, b in enumerate(body['blocks']):
        if b.get('cleanup'):
            continue
        for s in b['stmts']:
            if s.get('s') != 'Assign':
                continue
            ops = []
            r = s['r']
            for k in ('a', 'b'):
                if k in r and isinstance(r[k], dict):
                    ops.append(r[k])
            ops += r.get('ops', [])
            for o in ops:
                if 'm' in o:
                    f = self_field(o['m'])
                    if f and len(o['m']) == 3:
                        taken.append((i, f, 'move'))
    restores = {}
    for i, b in enumerate(body['blocks']):
        if b.get('cleanup'):
            continue
        for s in b['stmts']:
            if s.get('s') == 'Assign':
                f = self_field(s['p'])
                if f and len(s['p']) == 3:
                    restores.setdefault(f, []).append(i)
        # Drop+assign is also expressed as a Drop terminator followed by Assign; handled above
    # what was moved out must come back as it was: while it is out, nothing may add to / remove from it
    for bb, t in c.calls():
        n = norm_path(callee_name(t) or '')
        if n not in ('std::mem::take', 'std::mem::replace'):
            continue
        fld = None
        for a in t['args']:
            pl = operand_place(a)
            if pl is not None and len(pl) == 1 and pl[0] in refs:
                fld = refs[pl[0]]
        if fld is None or not t.get('dest'):
            continue
        holders = {t['dest'][0]}
        changed = True
        while changed:
            changed = False
            for b in body['blocks']:
                for st in b['stmts']:
                    if st.get('s') == 'Assign' and len(st['p']) == 1 and st['p'][0] not in holders:
                        r = st['r']
                        src = None
                        if r['rv'] == 'Ref':
                            src = r['p']
                        elif r['rv'] in ('Use', 'Cast'):
                            src = operand_place(r['a'])
                        if src is not None and src[0] in holders and all(x == '*' for x in src[1:]):
                            holders.add(st['p'][0])
                            changed = True
        ALLOWED = {'iter_mut', 'iter', 'len', 'is_empty', 'deref', 'deref_mut', 'drop', 'into_iter', 'borrow', 'borrow_mut', 'as_ref', 'as_mut'}
        offenders = []
        for bb2, t2 in c.calls():
            if bb2 == bb or body['blocks'][bb2].get('cleanup'):
                continue
            uses = False
            for a in t2.get('args') or []:
                pl = operand_place(a)
                if pl is not None and pl[0] in holders and all(x == '*' for x in pl[1:]):
                    uses = True
            if not uses:
                continue
            n2 = norm_path(callee_name(t2) or '')
            last = n2.split('::')[-1]
            if last not in ALLOWED and not n2.startswith('std::mem::'):
                offenders.append((bb2, n2))
        key = 'self.%s/unchanged-while-out' % fld
        if offenders:
            for bb2, n2 in offenders:
                res.bad('%s/%s' % (key, n2.split('::')[-1]), 'emit_wasm moves `self.%s` out and calls %s on it before putting it back: the '
                        'field that comes back is not the one that was taken (a later emit sees a different module)' % (fld, n2),
                        where(body, bb2))
        else:
            res.ok(key, {'field': fld, 'calls_while_out': 'iteration only'})
    if not taken:
        res.ok('no-field-moved', {'emit_wasm': 'moves nothing out of the module'}, nontrivial=False)
    for bb, f, how in taken:
        rb = set(restores.get(f, []))
        # is there a path from the take to a Return that avoids every restoring block?
        reach = c.reach_after(bb, avoid=rb) if bb not in rb else set()
        # a restore in the same block *before* the take does not count; conservative: ignore same-block
        leak = [r for r in c.returns if r in reach]
        key = 'self.%s' % f
        if leak or not rb:
            res.bad(key, 'emit_wasm moves `self.%s` out (%s) and does not put it back on every path to return: '
                    'a second emit (or any later use) sees the field emptied' % (f, how), where(body, bb))
        else:
            res.ok(key, {'field': f, 'moved_by': how, 'restored_in_blocks': sorted(rb)})
    # EmitContext.module is a shared reference
    a = F.adt('emit::EmitContext')
    ok_ctx = False
    if a:
        for fd in a['variants'][0]['fields']:
            if fd['name'] == 'module':
                ok_ctx = fd['ty'].startswith('&') and 'mut' not in fd['ty'].split('module::Module')[0]
                ctx_ty = fd['ty']
    if ok_ctx:
        res.ok('context/shared-module', {'EmitContext.module': ctx_ty})
    else:
        res.bad('context/shared-module', 'EmitContext.module must be a shared reference to the module')
    # no function reachable from emit_wasm takes &mut Module
    insts = F.insts_of(EW)
    bad = set()
    if insts:
        for d in F.reach_defs(insts):
            m = F.mir.get(d)
            if not m or d == EW:
                continue
            for i in range(1, m['arg_count'] + 1):
                ty = m['locals'][i]['ty']
                if ty.replace(' ', '') in ('&mutmodule::Module', "&'_mutmodule::Module") or ty.startswith('&mut module::Module'):
                    bad.add(d)
    if bad:
        for d in sorted(bad):
            res.bad('mut-module/' + d, 'a function reachable from emit_wasm takes `&mut Module`: emit could alter the module')
    else:
        res.ok('no-mut-module-in-emit', {'functions_reachable_from_emit_wasm': len(F.reach_defs(insts)) if insts else 0})
    return res
