"""R-FLOW (segments, start, types, functions, const-exprs): the second half of the
attribute-flow rule.  Parser and emitter are evaluated separately against the
*record* that sits between them:

  parse side   every field the parser stores is the stated projection of the wasmparser item
               (payload bytes, kind, target through the index space of its kind, offset through
               ConstExpr::eval, items in order);
  emit side    every argument the emitter hands to wasm-encoder is the stated projection of the
               record (same payload value, kind -> same-named method, target through the index
               space of its kind, offset/items through ConstExpr::to_wasmencoder_type, in order).

Plus the const-expr table: ConstExpr::eval o to_wasmencoder_type maps every accepted
initialiser operator to the same-named wasm-encoder constructor with the same operand."""
import re
from registry import RuleResult
from heval import Evaluator, Policy, EvalError, sym, show, cfield, ctor, lit, NONE, some
import flowlib as fl
from flowlib import worlds_of, allocs, section_calls, cond_text
from r_table import Canon, strip_tys

ITEM = ('ok', ('elem', sym('section')))
OPAQUE = ('const_expr::ConstExpr::eval', 'const_expr::ConstExpr::to_wasmencoder_type')


def is_ok(w):
    v = w.value
    return w.outcome == 'return' and (v == ('tup', ()) or (isinstance(v, tuple) and v and v[0] == 'ctor' and v[2] == 'Ok'))


def assumed(w, term_show_prefix, adt=None):
    for k, v in w.assumptions:
        if isinstance(v, tuple) and v and v[0] == 'ctor' and not (isinstance(k, tuple) and k and k[0] == 'atom'):
            if show(k).startswith(term_show_prefix) and (adt is None or v[1] == adt):
                return v[2]
    return None


def canon(t):
    return Canon(None).canon(t)


def is_eval_of(t, src_show):
    """t == ConstExpr::eval(<src>, ids)! """
    while t[0] == 'ok':
        t = t[1]
    return t[0] == 'call' and t[1].endswith('ConstExpr::eval') and show(t[2][0]) == src_show


def is_reenc_of(t, rec_field_show):
    return t[0] == 'call' and t[1].endswith('ConstExpr::to_wasmencoder_type') and show(t[2][0]) == rec_field_show


def run(ctx):
    F = ctx.F
    res = RuleResult('R-FLOW-SEG', 'data / element segments, start, types, function section and const-exprs flow unchanged')
    res.floor = 30
    pol = fl.policy(no_inline=OPAQUE)
    for fn in (data, elements, start, types_, functions, constexprs):
        try:
            fn(F, res, pol)
        except (EvalError, KeyError) as e:
            res.error('%s not analysable: %s' % (fn.__name__, e))
    res.exhaustive = True
    return res


# ------------------------------------------------------------------ data
def data(F, res, pol):
    _, pws = worlds_of(F, 'parse_data', [sym('self'), sym('section'), sym('ids')], pol, key='seg')
    seen = set()
    for w in pws:
        if not is_ok(w):
            continue
        kind = assumed(w, 'elem(section)!.kind', 'wasmparser::DataKind')
        if kind is None:
            continue
        stores = {e['callee'].split('.')[-1]: e for e in w.trace if e['kind'] == 'store'}
        key = 'data/parse/' + kind
        v = stores.get('value')
        if v is None or show(v['args'][1]) != 'elem(section)!.data':
            res.bad(key + '/payload', 'the payload of a %s data segment must be the parsed bytes; stored %s'
                    % (kind.lower(), show(v['args'][1]) if v else 'nothing'))
            continue
        k = stores.get('kind')
        if k is None or v['args'][0] != k['args'][0]:
            res.bad(key + '/kind', 'a %s data segment does not get its kind stored on the same record' % kind.lower())
            continue
        kv = k['args'][1]
        if kind == 'Passive':
            good = kv[0] == 'ctor' and kv[2] == 'Passive'
        else:
            mem = canon(cfield(kv, 'memory')) if kv[0] == 'ctor' and kv[2] == 'Active' else None
            off = cfield(kv, 'offset') if kv[0] == 'ctor' and kv[2] == 'Active' else None
            good = (mem is not None and show(mem) == "('id', 'memory', ...)" or
                    (mem is not None and mem[0] == 'id' and mem[1] == 'memory'
                     and show(mem[2]) == 'elem(section).kind.Active.memory_index')) \
                and off is not None and is_eval_of(off, 'elem(section)!.kind.Active.offset_expr')
            # the memory learns about its active segment (the GC follows memory -> data)
            ins = [e for e in w.trace if e['kind'] == 'call' and e['callee'].endswith('HashSet::insert')]
            # ... under the id of the record being filled: `<record>.id`, or the id the record was fetched with
            own_id = lambda t: show(t).endswith('.id') or (len(show(t)) > 3 and show(t) in show(k['args'][0]))
            if not (len(ins) == 1 and 'data_segments' in show(ins[0]['args'][0]) and 'memories' in show(ins[0]['args'][0])
                    and own_id(ins[0]['args'][1])):
                res.bad(key + '/backlink', 'an active data segment must be registered in its memory\'s data_segments')
                continue
        if good:
            seen.add(kind)
            res.ok(key, {'segment': 'data', 'kind': kind, 'stored_kind': show(kv)[:120]})
        else:
            res.bad(key + '/kind', 'a %s data segment is recorded as %s' % (kind.lower(), show(kv)[:160]))
    for k in ('Passive', 'Active'):
        if k not in seen and not any(('data/parse/' + k) in v['key'] for v in res.violations):
            res.bad('data/parse/%s/missing' % k, 'parse_data has no successful path for %s segments' % k.lower())
    # emit
    _, ews = worlds_of(F, '<module::data::ModuleData as emit::Emit>::emit', [sym('self'), sym('cx')], pol, key='seg')
    seen = set()
    for w in ews:
        if w.outcome != 'return':
            continue
        calls = [c for c in section_calls(w)]
        if not calls:
            continue
        rk = None
        R = None
        for k, v in w.assumptions:
            if isinstance(v, tuple) and v and v[0] == 'ctor' and v[1] == 'module::data::DataKind':
                rk = v[2]
                R = k[1] if k[0] == 'field' and k[2] == 'kind' else None
        if rk is None or R is None:
            continue
        key = 'data/emit/' + rk
        extra = [(show(k[1]), v) for k, v in w.assumptions if isinstance(k, tuple) and k[0] == 'atom'
                 and 'dead' not in show(k[1]) and 'len(' not in show(k[1])]
        if extra:
            res.bad(key + '/conditional', 'how a data segment is emitted depends on %s' % extra[:2])
            continue
        c = calls[0]
        meth = c['callee'].split('::')[-1]
        Rs = show(R)
        if rk == 'Passive':
            good = meth == 'passive' and show(c['args'][1]) == Rs + '.value'
        else:
            m = canon(c['args'][1])
            good = meth == 'active' and m == ('idx', 'memory', canon(('field', ('field', R, 'kind'), 'Active.memory'))) \
                and is_reenc_of(c['args'][2], Rs + '.kind.Active.offset') and show(c['args'][3]) == Rs + '.value'
        if good and len(calls) == 1:
            seen.add(rk)
            res.ok(key, {'segment': 'data', 'kind': rk, 'call': meth, 'args': [show(a)[:80] for a in c['args'][1:]]})
        else:
            res.bad(key, 'a %s data segment must be emitted as %s(%s) with its own memory, offset and unmodified payload; got %s(%s)'
                    % (rk.lower(), rk.lower(), 'memory index, offset, payload' if rk == 'Active' else 'payload', meth,
                       ', '.join(show(a)[:70] for a in c['args'][1:])))
    for k in ('Passive', 'Active'):
        if k not in seen and not any(('data/emit/' + k) in v['key'] for v in res.violations):
            res.bad('data/emit/%s/missing' % k, 'ModuleData::emit has no path for %s segments' % k.lower())


# ------------------------------------------------------------------ elements
def elements(F, res, pol):
    _, pws = worlds_of(F, 'parse_elements', [sym('self'), sym('section'), sym('ids')], pol, key='seg')
    seen_k, seen_i = set(), set()
    for w in pws:
        if not is_ok(w):
            continue
        recs = [r for a, r, e in allocs(w) if a == 'elements']
        if len(recs) != 1:
            res.bad('element/parse/alloc', 'parse_elements allocates %d element records for one segment' % len(recs))
            continue
        rec = recs[0]
        kind = assumed(w, 'elem(section)!.kind', 'wasmparser::ElementKind')
        items = assumed(w, 'elem(section)!.items', 'wasmparser::ElementItems')
        rk, ri = cfield(rec, 'kind'), cfield(rec, 'items')
        # kind
        if kind in ('Passive', 'Declared'):
            goodk = rk[0] == 'ctor' and rk[2] == kind
        else:
            t = canon(cfield(rk, 'table')) if rk[0] == 'ctor' and rk[2] == 'Active' else None
            off = cfield(rk, 'offset') if rk[0] == 'ctor' and rk[2] == 'Active' else None
            # the table index of the segment; an absent index (MVP encoding) is table 0, spelt as a default or as a literal 0
            none_idx = any(show(k).endswith('kind.Active.table_index') and isinstance(v, tuple) and v and v[0] == 'ctor' and v[2] == 'None'
                           for k, v in w.assumptions)
            goodk = t is not None and t[0] == 'id' and t[1] == 'table' and \
                ('kind.Active.table_index' in show(t[2]) or (none_idx and t[2][0] == 'lit' and t[2][1] == 0)) \
                and off is not None and is_eval_of(off, 'elem(section)!.kind.Active.offset_expr')
            ins = [e for e in w.trace if e['kind'] == 'call' and e['callee'].endswith('HashSet::insert')]
            if not (len(ins) == 1 and 'elem_segments' in show(ins[0]['args'][0]) and ins[0]['args'][1] == cfield(rec, 'id')):
                res.bad('element/parse/Active/backlink', 'an active element segment must be registered in its table\'s elem_segments')
                goodk = False
        if goodk:
            if kind not in seen_k:
                res.ok('element/parse/kind/' + kind, {'segment': 'element', 'kind': kind, 'stored': show(rk)[:100]})
            seen_k.add(kind)
        else:
            res.bad('element/parse/kind/' + str(kind), 'a %s element segment is recorded as %s' % (kind, show(rk)[:140]))
        # items
        if items == 'Functions':
            goodi = ri[0] == 'ctor' and ri[2] == 'Functions'
            if goodi:
                s = cfield(ri, '0')
                e = canon(s[2]) if s[0] == 'seq' else None
                goodi = s[0] == 'seq' and show(s[1]) == 'elem(section)!.items.Functions.0' and e is not None \
                    and e == ('id', 'function', ('elem', canon(s[1]))) and not fl.reorders(w, s)
        else:
            goodi = ri[0] == 'ctor' and ri[2] == 'Expressions'
            if goodi:
                ty, s = cfield(ri, '0'), cfield(ri, '1')
                want_ty = None
                for k, v in w.assumptions:
                    if isinstance(k, tuple) and k[0] == 'atom' and v is True and 'RefType::' in repr(k[1]) and 'Expressions.0' in show(k[1]):
                        want_ty = show(k[1][3]).replace('()', '').replace('REF', '')
                goodi = s[0] == 'seq' and show(s[1]) == 'elem(section)!.items.Expressions.1' and is_eval_of(s[2], 'elem(elem(section)!.items.Expressions.1)!') \
                    and ty[0] == 'ctor' and want_ty is not None and ty[2].upper().replace('REF', '') == want_ty and not fl.reorders(w, s)
        tag = items + ('' if items == 'Functions' else '/' + (show(cfield(ri, '0')) if ri[0] == 'ctor' and ri[3] else '?'))
        if goodi:
            if tag not in seen_i:
                res.ok('element/parse/items/' + tag, {'segment': 'element', 'items': tag})
            seen_i.add(tag)
        else:
            res.bad('element/parse/items/' + tag, '%s items of an element segment are recorded as %s' % (items, show(ri)[:160]))
    for k in ('Passive', 'Declared', 'Active'):
        if k not in seen_k and not any(('element/parse/kind/' + k) in v['key'] for v in res.violations):
            res.bad('element/parse/kind/%s/missing' % k, 'parse_elements has no successful path for %s segments' % k)
    # emit
    EM = '<module::elements::ModuleElements as emit::Emit>::emit'
    helper = ref_func_helper(F, EM)
    epol = fl.policy(no_inline=OPAQUE + ((helper,) if helper else ()), extra_effects=[re.escape(helper) + '$'] if helper else ())
    _, ews = worlds_of(F, EM, [sym('self'), sym('cx')], epol, key='seg-elem-emit')
    ref_func_declarations(F, res, ews, helper)
    seen = set()
    for w in ews:
        if w.outcome != 'return':
            continue
        # the per-segment calls (the loop over the arena); what follows the loop is ref_func_declarations' business
        calls = [c for c in section_calls(w) if c['loops']]
        if not calls:
            continue
        rk = ri = None
        R = None
        for k, v in w.assumptions:
            if isinstance(v, tuple) and v and v[0] == 'ctor':
                if v[1] == 'module::elements::ElementKind':
                    rk, R = v[2], k[1]
                if v[1] == 'module::elements::ElementItems':
                    ri = v[2]
        if rk is None or ri is None:
            continue
        Rs = show(R)
        c = calls[0]
        meth = c['callee'].split('::')[-1]
        els = c['args'][-1]
        key = 'element/emit/%s/%s' % (rk, ri)
        # kind -> method (+ target / offset)
        if rk == 'Active':
            t = c['args'][1]
            idx = ('idx', 'table', canon(('field', ('field', R, 'kind'), 'Active.table')))
            nz = [(k[1], v) for k, v in w.assumptions if isinstance(k, tuple) and k[0] == 'atom' and 'get_table_index' in show(k[1])]
            if t == NONE:
                goodk = True
                enc = 'None (index 0: MVP encoding)'
            else:
                goodk = t[0] == 'ctor' and t[2] == 'Some' and canon(cfield(t, '0')) == idx
                enc = 'Some(index)'
            goodk = goodk and meth == 'active' and is_reenc_of(c['args'][2], Rs + '.kind.Active.offset') and len(nz) == 1
            if goodk:
                # the MVP form (None) is used exactly when the index is 0: nothing else may force the explicit-index encoding
                at, tv = nz[0]
                while isinstance(at, tuple) and at[0] == 'un' and at[1] == 'Not':
                    at, tv = at[2], (not tv)
                is_zero = non_zero = False
                if isinstance(at, tuple) and at[0] == 'bin' and at[1] in ('Eq', 'Ne') and at[3] == ('lit', 0, at[3][2] if len(at[3]) > 2 else ''):
                    eq = tv if at[1] == 'Eq' else (not tv)
                    is_zero, non_zero = eq, (not eq)
                goodk = is_zero if t == NONE else non_zero
                if not goodk:
                    enc += ' although the table index is %s0' % ('not ' if t == NONE else '')
            key += '/' + ('idx0' if t == NONE else 'idxN')
        else:
            goodk = meth == rk.lower()
        # items
        if ri == 'Functions':
            goodi = els[0] == 'ctor' and els[2] == 'Functions'
            if goodi:
                s = cfield(els, '0')
                goodi = s[0] == 'seq' and show(s[1]) == Rs + '.items.Functions.0' and canon(s[2]) == ('idx', 'function', ('elem', canon(s[1]))) \
                    and not fl.reorders(w, s)
        else:
            goodi = els[0] == 'ctor' and els[2] == 'Expressions'
            if goodi:
                rt, s = cfield(els, '0'), cfield(els, '1')
                have = None
                for k, v in w.assumptions:
                    if isinstance(v, tuple) and v and v[0] == 'ctor' and v[1] == 'ty::RefType':
                        have = v[2].upper().replace('REF', '')
                goodi = s[0] == 'seq' and show(s[1]) == Rs + '.items.Expressions.1' and is_reenc_of(s[2], 'elem(%s.items.Expressions.1)' % Rs) \
                    and rt[0] == 'call' and have is not None and rt[1].split('::')[-1].replace('REF', '') == have and not fl.reorders(w, s)
                key += '/' + str(have)
        if goodk and goodi and len(calls) == 1:
            seen.add((rk, ri))
            res.ok(key, {'segment': 'element', 'kind': rk, 'items': ri, 'call': meth})
        else:
            res.bad(key, 'a %s element segment with %s items is emitted as %s(%s)%s' % (rk, ri, meth, ', '.join(show(a)[:60] for a in c['args'][1:]),
                                                                                         (' [' + enc + ']') if rk == 'Active' else ''))
    for k in ('Passive', 'Declared', 'Active'):
        for i in ('Functions', 'Expressions'):
            if (k, i) not in seen and not any(('element/emit/%s/%s' % (k, i)) in v['key'] for v in res.violations):
                res.bad('element/emit/%s/%s/missing' % (k, i), 'ModuleElements::emit has no path for %s segments with %s items' % (k, i))


def ref_func_helper(F, em):
    """the function, written next to the element emitter and called from it, through which the function bodies are walked
    (found by what it does: the instruction traversal is reachable from it within the file) - the outermost such function,
    i.e. the one the emitter itself calls; or None"""
    from heval import file_of, norm_path
    from mirinline import callee_of
    home = file_of(F, em)

    def local_calls(q):
        out, walks = [], False
        for x in [q] + [y for y in F.mir if y.startswith(q + '::{closure')]:
            for b in (F.mir.get(x) or {'blocks': []})['blocks']:
                t = b['term']
                if t.get('t') != 'Call':
                    continue
                k = (t.get('func') or {}).get('k') or {}
                if re.search(r'traversals::dfs_in_order$', norm_path(k.get('resolved') or k.get('fn') or '')):
                    walks = True
                c = callee_of(t, F)
                if c and c in F.mir and file_of(F, c) == home and '{closure' not in c and c not in out:
                    out.append(c)
        return out, walks

    memo = {}

    def reaches(q, depth=0):
        if q in memo:
            return memo[q]
        memo[q] = False
        cs, walks = local_calls(q)
        memo[q] = walks or (depth < 5 and any(reaches(c, depth + 1) for c in cs))
        return memo[q]
    for c in local_calls(em)[0]:
        if c != em and reaches(c):
            return c
    return None


DECLARING = (  # where a function index may occur so that `ref.func` on it validates: (arena of Module, path below the item)
    ('exports', r'^\.item\.Function\.0$'),
    ('globals', r'^\.kind\.Local\.0\.RefFunc\.0$'),
    ('elements', r'^\.items\.Functions\.0$'),            # element of that list
    ('elements', r'^\.items\.Expressions\.1$'),          # element of that list, .RefFunc.0
)


def _split_elem(x):
    """'elem(<inner>)<rest>' -> (inner, rest)"""
    if not x.startswith('elem('):
        return None
    d, i = 0, 4
    for i in range(4, len(x)):
        d += x[i] == '('
        d -= x[i] == ')'
        if d == 0:
            break
    return x[5:i], x[i + 1:]


def _declaring_base(st):
    """the (arena, path) a removal operand shown as `st` stands for, if it is a declaring occurrence written directly"""
    sp = _split_elem(st)
    tail = ''
    if sp and sp[0].startswith('elem('):
        tail = sp[1]
        sp = _split_elem(sp[0])
    if sp:
        m = re.match(r'^iter\(module\.(\w+)', sp[0])
        if m and sp[1].startswith('.1'):
            arena, path = m.group(1), sp[1][2:]
            for ar, rx in DECLARING:
                if ar == arena and re.match(rx, path) and tail in ('', '.RefFunc.0'):
                    if path.endswith('Expressions.1') == (tail == '.RefFunc.0') and \
                            ((arena == 'elements') == st.startswith('elem(elem(')):
                        return (ar, path)
    return None


def declaring(t):
    """set of declaring occurrences the function id term `t` ranges over, or None if some value of it is not one: direct
    projections of an export / global / element item, and elements of sequences built from those (map / filter_map over
    one arena, `chain` of two such sequences, copied / cloned views)"""
    while isinstance(t, tuple) and t and t[0] == 'ok':
        t = t[1]
    hit = _declaring_base(show(t))
    if hit:
        return {hit}
    if isinstance(t, tuple) and t and t[0] == 'elem':
        x = t[1]
        while isinstance(x, tuple) and x and x[0] == 'ok':
            x = x[1]
        if x[0] == 'seq':
            return declaring(x[2])
        if x[0] == 'call' and x[2]:
            last = x[1].split('::')[-1]
            if last == 'chain' and len(x[2]) == 2:
                l, r = declaring(('elem', x[2][0])), declaring(('elem', x[2][1]))
                return (l | r) if l and r else None
            if last in ('copied', 'cloned', 'iter', 'into_iter', 'by_ref', 'rev', 'loop_carried'):
                return declaring(('elem', x[2][-1] if last == 'loop_carried' else x[2][0]))
    return None


def ref_func_declarations(F, res, ews, helper):
    """`ref.func f` inside a function body validates only if f occurs somewhere outside the bodies: an export, an element
    segment, a global initialiser.  The GC removes unused segments, tables and globals without looking at that, and
    the builder API lets anybody write `ref.func`, so the element emitter has to declare what nothing else declares:

     (d1) after the per-segment loop it appends one `declared(Functions(..))` segment listing the emitted indices of the
          helper's result, exactly when that result is non-empty, and an empty arena alone does not skip the section;
     (d2) the helper collects the operand of every `ref.func` of every local function's emitted code (the traversal from the
          entry block) and drops a function only for an occurrence that really declares it (export item, global
          initialiser `ref.func`, element items of either form)."""
    key = 'element/emit/ref-func-declarations'
    if helper is None:
        res.bad(key + '/missing', 'ModuleElements::emit never looks at the `ref.func` instructions of the function bodies: a function '
                'whose only declaring occurrence (element segment, global, export) was removed is referenced by an undeclared '
                '`ref.func`, and the emitted module does not validate')
        return
    hs = helper.split('::')[-1]
    bad = None
    n_decl = n_none = 0
    for w in ews:
        if w.outcome != 'return':
            continue
        post = [c for c in section_calls(w) if not c['loops']]
        emp = None
        for k, v in w.assumptions:
            if isinstance(k, tuple) and k and k[0] == 'atom' and isinstance(v, bool):
                t, val = k[1], v
                while t[0] == 'un' and t[1] == 'Not':
                    t, val = t[2], not val
                st = show(t)
                if st.startswith('is_empty(') and hs + '(' in st:
                    emp = val
        sect = [e for e in w.trace if e['kind'] == 'call' and e['callee'].endswith('wasm_encoder::Module::section')]
        if not sect and emp is not True:
            bad = 'the element section is skipped without knowing that no function needs a declaration (e.g. whenever the arena is empty)'
            continue
        if emp is False:
            if len(post) != 1 or post[0]['callee'].split('::')[-1] != 'declared':
                bad = 'functions need a declaration but %d segment(s) are appended after the loop' % len(post)
                continue
            els = post[0]['args'][-1]
            okk = els[0] == 'ctor' and els[2] == 'Functions'
            if okk:
                sq = cfield(els, '0')
                okk = sq[0] == 'seq' and sq[1][0] == 'call' and sq[1][1] == helper and canon(sq[2]) == ('idx', 'function', ('elem', canon(sq[1])))
            if not okk:
                bad = 'the declaring segment does not list the emitted index of every function the helper returned: %s' % show(els)[:100]
                continue
            n_decl += 1
        else:
            if post:
                bad = 'a segment is appended after the loop although nothing needs a declaration'
                continue
            n_none += 1
    if bad:
        res.bad(key, 'ModuleElements::emit: ' + bad)
    elif n_decl and n_none:
        res.ok(key, {'declared_segment': 'declared(Functions(indices of %s(module))) iff non-empty' % hs})
    else:
        res.bad(key + '/missing', 'ModuleElements::emit has no path that declares the functions only referenced by `ref.func` in bodies '
                '(declaring worlds: %d, plain worlds: %d)' % (n_decl, n_none))
    # (d2)
    pol2 = Policy(effects=[r'HashSet::(insert|remove)$', r'dfs_in_order$'], inline=lambda q: 'dfs_in_order' not in q)
    hws = Evaluator(F, pol2).run_fn(helper, [sym('module')])
    bad = None
    seen_decl = set()
    walked = hooked = False
    from adtwalk import peel, show_path
    for w in hws:
        for e in w.trace:
            if e['kind'] != 'call':
                continue
            last = e['callee'].split('::')[-1]
            if last == 'dfs_in_order':
                fn_, start_ = show(e['args'][1]), show(e['args'][2])
                from_entry = start_ in ('entry_block(%s)' % fn_, fn_ + '.builder.entry!')
                if from_entry and e['loops'] and 'module.funcs' in show(e['loops'][0]):
                    walked = True
                else:
                    bad = 'the bodies are not walked from each local function\'s entry block'
            if last == 'remove':
                a = e['args'][1]
                st = show(a)
                hits = declaring(a)
                hit = None
                if hits:
                    seen_decl |= hits
                    hit = True
                if hit is None:
                    bad = 'a function is treated as declared because of %s, which is not a declaring occurrence' % st[:90]
    # the visitor hook
    from heval import file_of
    hook = [q for q in F.hir if re.match(r'^<[\w:]+(<.*?>)? as ir::Visitor', q) and q.endswith('::visit_ref_func')
            and file_of(F, q) == file_of(F, helper)]
    for q in hook[:1]:
        try:
            kw = Evaluator(F, Policy(effects=[r'HashSet::insert$'], inline=lambda x: True)).run_fn(q, [sym('self'), sym('instr')])
            ins = [e for w in kw for e in w.trace if e['kind'] == 'call' and e['callee'].endswith('insert')]
            hooked = bool(ins) and all(show(e['args'][1]) in ('instr.func', '*instr.func') for e in ins) and \
                all(any(e['callee'].endswith('insert') for e in w.trace if e['kind'] == 'call') for w in kw if w.outcome == 'return')
        except EvalError:
            hooked = False
    want = {('exports', '.item.Function.0'), ('globals', '.kind.Local.0.RefFunc.0'), ('elements', '.items.Functions.0'),
            ('elements', '.items.Expressions.1')}
    if bad:
        res.bad(key + '/set', '%s: %s' % (hs, bad))
    elif not walked or not hooked:
        res.bad(key + '/set', '%s does not collect the operand of every `ref.func` (bodies walked: %s, hook records instr.func: %s)'
                % (hs, walked, hooked))
    else:
        res.ok(key + '/set', {'collected': 'ref.func operands of every local function, from the entry block',
                              'dropped_when_declared_by': sorted(a + p for a, p in seen_decl),
                              'not_consulted': sorted(a + p for a, p in want - seen_decl)})


# ------------------------------------------------------------------ start
def start(F, res, pol):
    from heval import local_policy
    nop = local_policy(F, 'module::Module::parse', public_events=True)
    ws = Evaluator(F, nop).run_fn('module::Module::parse', [sym('wasm'), sym('config')])
    okp = False
    for w in ws:
        if not any(isinstance(v, tuple) and v and v[0] == 'ctor' and v[1] == 'wasmparser::Payload' and v[2] == 'StartSection'
                   for k, v in w.assumptions):
            continue
        if not is_ok(w):
            continue
        from heval import strip_after
        m = strip_after(cfield(w.value, '0'))
        v = cfield(m, 'start') if m is not None and m[0] == 'ctor' else None
        if v is None:
            continue
        while v[0] == 'call' and v[1] == 'loop_result':
            v = v[2][1]
        c = canon(cfield(v, '0')) if v[0] == 'ctor' and v[2] == 'Some' else None
        okp = c is not None and c[0] == 'id' and c[1] == 'function' and show(c[2]).endswith('StartSection.func')
    if okp:
        res.ok('start/parse', {'start': 'Some(function id of the start index)'})
    else:
        res.bad('start/parse', 'the start function is not recorded as the function the start section names')
    from flowlib import name_section_emitter
    nse = name_section_emitter(F)
    nop = local_policy(F, 'module::Module::emit_wasm', events=[re.escape(nse) + '$'] if nse else [], public_events=True)
    ws = Evaluator(F, nop).run_fn('module::Module::emit_wasm', [sym('self')])
    some_ok = none_ok = False
    for w in ws:
        sv = [v for k, v in w.assumptions if show(k) == 'self.start' and isinstance(v, tuple)]
        if not sv:
            continue
        secs = [e for e in w.trace if e['kind'] == 'call' and e['callee'].endswith('wasm_encoder::Module::section') and not e['loops']
                and 'StartSection' in show(e['args'][1])]
        if sv[0][2] == 'Some':
            if len(secs) == 1:
                fi = cfield(secs[0]['args'][1], 'function_index')
                some_ok = canon(fi) == ('idx', 'function', canon(cfield(sv[0], '0')))
            elif w.outcome == 'return':
                # the module has a start function but this path writes no start section: nothing may decide that but
                # `module.start` itself (an imported start function, a deleted one ... are not reasons to drop it silently)
                at = [show(k[1])[:80] for k, v in w.assumptions if isinstance(k, tuple) and k and k[0] == 'atom']
                res.bad('start/emit/conditional', 'module.start is set but no start section is emitted when %s' % at[-2:])
        else:
            none_ok = not secs
    if some_ok and none_ok:
        res.ok('start/emit', {'start': 'StartSection{function index of module.start} iff module.start is Some'})
    else:
        res.bad('start/emit', 'the start section must be emitted exactly when module.start is set, with that function\'s index')


# ------------------------------------------------------------------ types
def types_(F, res, pol):
    pol2 = fl.policy(no_inline=('ty::ValType::parse', 'ty::ValType::to_wasmencoder_type') + OPAQUE)
    _, pws = worlds_of(F, 'parse_types', [sym('self'), sym('section'), sym('ids')], pol2, key='types')
    good = False
    for w in pws:
        if not is_ok(w):
            continue
        ins = [e for e in w.trace if e['kind'] == 'call' and e['callee'].endswith('ArenaSet::insert')]
        if len(ins) != 1:
            continue
        t = ins[0]['args'][1]
        if t[0] != 'ctor':
            continue
        p, r = cfield(t, 'params'), cfield(t, 'results')
        def seq_ok(s, which):
            while s[0] == 'ok':
                s = s[1]
            return s[0] == 'seq' and re.match(r'^%s\(elem\(.*section.*\)!?\)$' % which, show(s[1])) is not None \
                and s[2][0] in ('call', 'ok') and 'parse(elem(' in show(s[2]) and not fl.reorders(w, s)
        good = seq_ok(p, 'params') and seq_ok(r, 'results')
        if not good:
            res.bad('type/parse', 'a function type is recorded with params=%s results=%s' % (show(p)[:80], show(r)[:80]))
            return
        pt = [e for n, e in fl.pushes(w, 'parse') if n == 'push_type']
        if len(pt) != 1 or 'insert(' not in show(pt[0]['args'][1]):
            res.bad('type/parse/index', 'the parse-time type index must map to the id returned by the de-duplicating insert')
            return
    if good:
        res.ok('type/parse', {'type': 'params/results parsed element-wise in order; index -> id of the (possibly existing) type'})
    else:
        res.bad('type/parse/missing', 'parse_types has no analysable successful path')
    _, ews = worlds_of(F, '<module::types::ModuleTypes as emit::Emit>::emit', [sym('self'), sym('cx')], pol2, key='types')
    good = False
    for w in ews:
        calls = [c for c in section_calls(w) if c['callee'].endswith('TypeSection::function')]
        if not calls:
            continue
        a = calls[0]['args']
        ps, rs = a[1], a[2]
        def owner(t, which):
            sh = show(t)
            if sh.startswith(which + '('):
                return sh[len(which) + 1:-1]
            if sh.endswith('.' + which):
                return sh[:-len(which) - 1]
            return None
        po, ro = owner(ps[1], 'params') if ps[0] == 'seq' else None, owner(rs[1], 'results') if rs[0] == 'seq' else None
        good = po is not None and po == ro and 'to_wasmencoder_type(elem(' in show(ps[2]) and 'to_wasmencoder_type(elem(' in show(rs[2]) \
            and not fl.reorders(w, ps) and not fl.reorders(w, rs)
        if not good:
            res.bad('type/emit', 'a function type is emitted as function(%s, %s)' % (show(ps)[:80], show(rs)[:80]))
            return
    if good:
        res.ok('type/emit', {'type': 'function(params re-encoded in order, results re-encoded in order) of one type'})
    else:
        res.bad('type/emit/missing', 'ModuleTypes::emit has no analysable path')


# ------------------------------------------------------------------ function section
def functions(F, res, pol):
    _, pws = worlds_of(F, 'declare_local_functions', [sym('self'), sym('section'), sym('ids')], pol, key='seg')
    good = False
    for w in pws:
        if not is_ok(w):
            continue
        recs = [r for a, r, e in allocs(w) if a == 'funcs']
        if len(recs) != 1:
            continue
        s = show(recs[0])
        t = None
        for x in recs:
            m = re.search(r'get_type\(ids, elem\(section\)!\)!', s)
            t = m
        good = t is not None and 'Uninitialized' in s
        if not good:
            res.bad('function/declare', 'a function-section entry is recorded as %s' % s[:160])
            return
    if good:
        res.ok('function/declare', {'function': 'Uninitialized(type id of the declared type index)'})
    else:
        res.bad('function/declare/missing', 'declare_local_functions has no analysable successful path')
    # the ordering function: the same-file function both the function section and the code section obtain their list from
    # (found by that role, not by its name); it stays opaque, every other helper next to the emitters is looked through
    from heval import local_policy, file_of, norm_path
    from cfg import callee_name
    FS = 'module::functions::ModuleFunctions::emit_func_section'
    CS = '<module::functions::ModuleFunctions as emit::Emit>::emit'
    if FS not in F.mir or CS not in F.mir:
        res.error('anchor lost: emit_func_section / <ModuleFunctions as Emit>::emit')
        return
    from mirinline import callee_of

    def local_callees(root, depth=3):
        seen, work = set(), [(root, 0)]
        home = file_of(F, root)
        while work:
            p, d = work.pop()
            for q, body in F.mir.items():
                if q != p and not q.startswith(p + '::{closure'):
                    continue
                for blk in body['blocks']:
                    t = blk['term']
                    if t.get('t') == 'Call':
                        c = callee_of(t)
                        if c and c in F.mir and file_of(F, c) == home and c not in seen and c not in (FS, CS):
                            seen.add(c)
                            if d < depth:
                                work.append((c, d + 1))
        return seen
    common = sorted(x for x in (local_callees(FS) & local_callees(CS)) if '{closure' not in x)
    if not common:
        res.bad('function/ordering-function', 'the function section and the code section do not obtain their function list from one '
                'shared ordering function: the order of bodies can drift from the order of indices')
        return
    keep = [re.escape(c) + '$' for c in common]
    nop = local_policy(F, FS, keep=keep, public_events=True)
    ws = Evaluator(F, nop).run_fn(FS, [sym('self'), sym('cx')])
    good = False
    ord_term = None
    for w in ws:
        fc = [e for e in w.trace if e['kind'] == 'call' and e['callee'].endswith('FunctionSection::function')]
        pf = [e for e in w.trace if e['kind'] == 'call' and e['callee'].endswith('push_func')]
        if not fc:
            continue
        src = fc[0]['loops'][-1] if fc[0]['loops'] else None
        while src is not None and src[0] == 'call' and src[1].split('::')[-1] in ('into_iter', 'iter') and len(src[2]) == 1:
            src = src[2][0]
        is_ord = src is not None and src[0] == 'call' and src[1] in common
        el = ('elem', fc[0]['loops'][-1]) if fc[0]['loops'] else None
        a_ty, a_id = show(fc[0]['args'][1]), (show(pf[0]['args'][1]) if pf else '')
        sel = show(el) if el else '?'
        good = len(fc) == 1 and len(pf) == 1 and is_ord and pf[0]['loops'] == fc[0]['loops'] \
            and re.match(r'^get_type_index\(cx\.indices, ty\(%s[.\w]*\)\)$' % re.escape(sel), a_ty) is not None \
            and re.match(r'^%s[.\w]*$' % re.escape(sel), a_id) is not None
        if not good:
            res.bad('function/section', 'emit_func_section must, per entry of the ordering function, emit the type index of that '
                    'function and assign the next function index to that same function: %s / %s'
                    % ([show(a)[:70] for a in fc[0]['args'][1:]], [show(a)[:70] for e in pf for a in e['args'][1:]]))
            return
        ord_term = src
    if good:
        res.ok('function/section', {'function_section': 'type index and function index assigned per entry of %s' % show(ord_term)[:60]})
    else:
        res.bad('function/section/missing', 'emit_func_section has no analysable path')
        return
    # the code section iterates the same ordering function
    nop2 = local_policy(F, CS, keep=keep, public_events=True)
    ws = Evaluator(F, nop2).run_fn(CS, [sym('self'), sym('cx')])
    good = False
    for w in ws:
        raw = [e for e in w.trace if e['kind'] == 'call' and e['callee'].endswith('CodeSection::raw')]
        if not raw:
            continue
        l = raw[0]['loops'][-1] if raw[0]['loops'] else None
        good = l is not None and show(ord_term) in show(l) and 'sort' not in show(l) and 'rev' not in show(l)
    if good:
        res.ok('function/code-order', {'code_section': 'bodies appended in the order of %s' % show(ord_term)[:60]})
    else:
        res.bad('function/code-order', 'the code section must append bodies in exactly the order of %s, the order '
                'in which the function section assigned indices' % show(ord_term)[:60])


# ------------------------------------------------------------------ const exprs
SNAKE = lambda s: re.sub(r'(?<!^)(?=[A-Z])', '_', s).lower()


def constexprs(F, res, pol):
    pol3 = fl.policy()
    ev = Evaluator(F, pol3, max_worlds=40000)
    ws = ev.run_fn('const_expr::ConstExpr::eval', [sym('init'), sym('ids')])
    accepted = {}
    for w in ws:
        if not is_ok(w):
            continue
        op = None
        for k, v in w.assumptions:
            if isinstance(v, tuple) and v and v[0] == 'ctor' and v[1] == 'wasmparser::Operator' and 'read(get_operators_reader' in show(k) \
                    and v[2] != 'End':
                op = v
        if op is None:
            continue
        accepted.setdefault(op[2], []).append((w, cfield(w.value, '0'), op))
    if not accepted:
        res.error('ConstExpr::eval: no accepted operator found')
        return
    enc = Evaluator(F, pol3)
    for opname, lst in sorted(accepted.items()):
        for w, val, op in lst:
            key = 'constexpr/' + opname
            tag = ''
            try:
                ews = enc.run_fn('const_expr::ConstExpr::to_wasmencoder_type', [val, sym('cx')])
            except EvalError as e:
                res.error('to_wasmencoder_type(%s) not analysable: %s' % (show(val), e))
                continue
            for w2 in ews:
                out = w2.value
                if w2.outcome != 'return' or out is None or out[0] != 'call':
                    res.bad(key + '/encode', 'const-expr %s (from %s) is not re-encoded: %s' % (show(val)[:60], opname, w2.outcome))
                    continue
                fn = out[1].split('::')[-1]
                if fn != SNAKE(opname):
                    res.bad(key + '/opcode', 'initialiser %s is re-emitted as %s' % (SNAKE(opname), fn))
                    continue
                arg = canon(out[2][0]) if out[2] else None
                opf = dict(op[3])
                good = False
                if opname in ('I32Const', 'I64Const'):
                    good = arg == canon(opf['value'])
                elif opname in ('F32Const', 'F64Const'):
                    good = arg is not None and arg[0] == 'from_bits' and show(arg[1]).startswith('bits(')
                elif opname == 'V128Const':
                    good = arg is not None and arg[0] == 'reinterpret' and arg[3][0] == 'le_u128'
                elif opname == 'GlobalGet':
                    good = arg == ('rt', 'global', canon(opf['global_index']))
                elif opname == 'RefFunc':
                    good = arg == ('rt', 'function', canon(opf['function_index']))
                elif opname == 'RefNull':
                    names_in = [v[2] for k, v in w.assumptions if isinstance(v, tuple) and v and v[0] == 'ctor'
                                and v[1] == 'wasmparser::AbstractHeapType']
                    a = out[2][0]
                    ty = cfield(a, 'ty') if a[0] == 'ctor' else None
                    good = bool(names_in) and ty is not None and ty[0] == 'ctor' and ty[2] == names_in[0]
                    tag = '/' + (names_in[0] if names_in else '?')
                if good:
                    res.ok(key + tag, {'initialiser': opname, 'ir': show(val)[:60], 're-encoded': show(out)[:80]})
                else:
                    res.bad(key + tag + '/operand', 'the operand of initialiser %s is not preserved: %s' % (SNAKE(opname), show(out)[:120]))
    need = {'I32Const', 'I64Const', 'F32Const', 'F64Const', 'V128Const', 'GlobalGet', 'RefNull', 'RefFunc'}
    for n in sorted(need - set(accepted)):
        res.bad('constexpr/%s/rejected' % n, 'ConstExpr::eval no longer accepts %s initialisers' % SNAKE(n))
