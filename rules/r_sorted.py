"""R-SORTED: every binary search runs over a table that the code sorts on the same key.

For each `binary_search*` call in the crate (resolved HIR) the receiver is a field
`T.F` (or a local).  Evidence that the table is sorted must exist:
  (a) a `sort*` call on the same field place of T somewhere in the crate, with no later
      push in that function, or
  (b) a struct expression building T whose field F is initialised from a local that the same
      function sorted, or
  (c) the field is assigned from `<BTreeMap>.into_iter().collect()` (ordered by the map key,
      which is the element's `.0`).
The key projection of the search (`|i| i.0`, ...) must be the one the table was sorted by.
A binary search over a field that nothing sorts (for example a user-supplied Vec) is reported."""
import re
from registry import RuleResult
from heval import norm_path, show_place


def walk(n, f):
    if isinstance(n, dict):
        f(n)
        for v in n.values():
            walk(v, f)
    elif isinstance(n, list):
        for v in n:
            walk(v, f)


def strip(n):
    while n.get('k') in ('AddrOf',) or (n.get('k') == 'Unary' and n.get('op') == 'Deref'):
        n = n['e'] if n['k'] == 'AddrOf' else n['a']
    return n


_alias = {}


def field_of(n, depth=0):
    """recv expr -> (owner type, field name) if it is a field place (a local bound by `let x = &place;` stands for it)"""
    n = strip(n)
    if n.get('k') == 'Path' and n.get('res') == 'local' and n.get('id') in _alias and depth < 4:
        return field_of(_alias[n['id']], depth + 1)
    if n.get('k') == 'Field':
        from facts import strip_ty
        return (strip_ty(n.get('base_ty') or ''), n['name'])
    return None


def closure_key(cl):
    """textual key projection of a closure like |i| i.0.start"""
    cl = strip(cl) if cl.get('k') != 'Closure' else cl
    if cl.get('k') != 'Closure':
        return None
    b = cl['body']
    while b.get('k') == 'Block' and not b['stmts'] and b.get('expr'):
        b = b['expr']
    parts = []
    b = strip(b)
    while b.get('k') == 'Field':
        parts.append(b['name'])
        b = strip(b['e'])
    if b.get('k') == 'Path':
        # `|(id, _)| *id`: the binding is a component of a tuple pattern - that position is the leading projection
        prm = (cl.get('params') or [None])[0]
        lead = tuple_position(prm, b.get('id')) if prm else None
        if lead is not None:
            parts.append(str(lead))
        return '.' + '.'.join(reversed(parts)) if parts else '.'
    return None


def tuple_position(pat, local_id):
    while pat and pat.get('k') in ('Ref', 'Deref'):
        pat = pat.get('p')
    if not pat or pat.get('k') != 'Tuple':
        return None
    for i, sp in enumerate(pat.get('pats', [])):
        q = sp
        while q and q.get('k') in ('Ref', 'Deref'):
            q = q.get('p')
        if q and q.get('k') == 'Bind' and q.get('id') == local_id:
            return i
    return None


def run(ctx):
    F = ctx.F
    res = RuleResult('R-SORTED', 'binary searches run over tables sorted on the same key')
    res.floor = 3     # one search per table at least; duplicated searches may be merged into helpers
    sorts_field = {}      # (T, F) -> [(fn, key)]
    struct_sorted = {}    # (T, F) -> [(fn, key)]
    btree_assign = {}     # (T, F) -> fn
    searches = []
    fn_alias = {}
    for path, h in F.hir.items():
        local_sorts = {}    # local id -> key
        local_ty = {}
        al = {}

        def lets(n):
            if n.get('k') == 'Let' and n.get('pat', {}).get('k') == 'Bind' and n.get('init') is not None:
                i = strip(n['init'])
                if i.get('k') == 'Field':
                    al[n['pat']['id']] = n['init']
        walk(h['body'], lets)
        fn_alias[path] = al
        _alias.clear()
        _alias.update(al)

        def visit(n):
            k = n.get('k')
            if k == 'MethodCall':
                c = norm_path(n.get('callee') or '')
                m = c.split('::')[-1]
                if ('slice' in c or 'Vec' in c) and m.startswith('sort'):
                    key = closure_key(n['args'][0]) if n.get('args') else '.'
                    r = strip(n['recv'])
                    fo = field_of(n['recv'])
                    if fo:
                        sorts_field.setdefault(fo, []).append((path, key))
                    elif r.get('k') == 'Path' and r.get('res') == 'local':
                        local_sorts[r['id']] = key
                if m.startswith('binary_search') and ('slice' in c or 'Vec' in c):
                    searches.append((path, n))
            if k == 'Struct':
                for f in n.get('fields', []):
                    if 'e' not in f:
                        continue
                    e = strip(f['e'])
                    if e.get('k') == 'Path' and e.get('res') == 'local' and e['id'] in local_sorts:
                        struct_sorted.setdefault((n.get('adt'), f['name']), []).append((path, local_sorts[e['id']]))
            if k == 'Assign':
                fo = field_of(n['a'])
                if fo:
                    b = n['b']
                    # <btreemap>.into_iter().collect()
                    if b.get('k') == 'MethodCall' and b.get('method') == 'collect':
                        r = b['recv']
                        if r.get('k') == 'MethodCall' and r.get('method') == 'into_iter' and \
                                (r.get('recv_ty') or '').lstrip('&').startswith('std::collections::BTreeMap'):
                            btree_assign[fo] = path
        walk(h['body'], visit)
    for path, n in searches:
        _alias.clear()
        _alias.update(fn_alias.get(path, {}))
        fo = field_of(n['recv'])
        m = norm_path(n.get('callee')).split('::')[-1]
        skey = None
        if m in ('binary_search_by_key',) and len(n.get('args', [])) >= 2:
            skey = closure_key(n['args'][1])
        elif m == 'binary_search':
            skey = '.'
        place = show_place(n['recv'])
        if fo is None:
            res.bad('%s/%s' % (path, place), 'binary search over `%s`, which is not a field the rule can find a sort for' % place,
                    '%s line %s' % (path, n.get('l')))
            continue
        T, Fd = fo
        key = '%s.%s@%s' % (T.split('::')[-1].split('<')[0], Fd, path.split('::')[-1])
        ev = []
        for src, lst in (('sorted in place', sorts_field.get(fo, [])), ('sorted before construction', struct_sorted.get(fo, []))):
            for fn, k in lst:
                ev.append((src, fn, k))
        if fo in btree_assign:
            ev.append(('collected from a BTreeMap', btree_assign[fo], '.0'))
        if not ev:
            res.bad(key, 'binary search over %s.%s, but nothing in the crate sorts that field (it would silently miss entries)'
                    % (T.split('::')[-1], Fd), '%s line %s' % (path, n.get('l')))
            continue
        keys = {k for _, _, k in ev}
        if skey is not None and not any(k == skey or (k and skey and (k.startswith(skey) or skey.startswith(k))) for k in keys):
            res.bad(key + '/key', 'binary search over %s.%s uses key `%s` but the table is sorted by %s'
                    % (T.split('::')[-1], Fd, skey, sorted(keys)), '%s line %s' % (path, n.get('l')))
            continue
        res.ok(key, {'table': '%s.%s' % (T.split('::')[-1], Fd), 'search': m, 'key': skey, 'evidence': [(a, b.split('::')[-1], c) for a, b, c in ev][:3]})
    return res
