"""R-SWEEP: passes::gc::run deletes exactly the complement of the used set.

 * every kind tracked by `Used` is swept: there is a delete loop over the arena of
   that kind, fed by `unused(&used.<field of that kind>, <ids of that same arena>)`,
   in every world (the sweep does not depend on anything else);
 * the helper `unused` returns exactly the ids that the set does not contain;
 * imports are swept by the kind they import: an import is deleted iff the used set
   of its payload's kind does not contain the payload id."""
import re
from registry import RuleResult
from heval import Evaluator, Policy, EvalError, sym, show, local_policy
from r_edges import used_kinds

RUN = 'passes::gc::run'


def coll_kinds(F):
    """Module field name -> entity kind stored in that collection"""
    out = {}
    m = F.adt('module::Module')
    for fd in m['variants'][0]['fields']:
        w = F.adt(fd['ty'])
        if not w:
            continue
        for f2 in w['variants'][0]['fields']:
            mm = re.match(r'^(tombstone_arena::TombstoneArena|arena_set::ArenaSet)<(.+)>$', f2['ty'])
            if mm and f2['name'] == 'arena':
                out[fd['name']] = mm.group(2)
    return out


def run(ctx):
    F = ctx.F
    res = RuleResult('R-SWEEP', 'gc::run sweeps every tracked kind against its used set; imports by the kind they import')
    res.floor = 11
    kinds = used_kinds(F)
    if not kinds or RUN not in F.hir:
        res.error('anchor lost: passes::gc::run / Used')
        return res
    ck = coll_kinds(F)
    kind_coll = {}
    for coll, kind in ck.items():
        kind_coll.setdefault(kind, coll)
    # helpers of gc.rs are looked through; what the pass does to the module is observed as delete events,
    # what it knows as `contains` conditions on the fields of the Used set
    pol = local_policy(F, RUN, events=[r'::delete$'], max_depth=10)
    try:
        ws = Evaluator(F, pol, max_worlds=20000).run_fn(RUN, [sym('m')])
    except EvalError as e:
        res.error('gc::run not analysable: %s' % e)
        return res
    ws = [w for w in ws if w.outcome in ('return', 'pruned')]
    used_term = None

    def conds(w):
        """{(used field, id term shown): truth} for every `used.<field>.contains(id)` this world assumed"""
        out = {}
        for k, v in w.assumptions:
            if isinstance(k, tuple) and k and k[0] == 'atom':
                t = k[1]
                neg = False
                while isinstance(t, tuple) and t[0] == 'un' and t[1] == 'Not':
                    t, neg = t[2], not neg
                if isinstance(t, tuple) and t[0] == 'call' and t[1].endswith('::contains') and len(t[2]) == 2:
                    recv = t[2][0]
                    if isinstance(recv, tuple) and recv[0] == 'field' and isinstance(recv[1], tuple) and recv[1][0] == 'call' \
                            and recv[1][1].endswith('Used::new'):
                        out[(recv[2], show(t[2][1]))] = (not v) if neg else v
        return out

    def pruned_right_after(w, ufield, x):
        """the condition assumed last in a pruned world, if the one before it is `used.<ufield>.contains(x)`: the item
        passed the used-test and was then rejected by something else"""
        atoms = [(k[1], v) for k, v in w.assumptions if isinstance(k, tuple) and k and k[0] == 'atom']
        if len(atoms) < 2:
            return None
        t, v = atoms[-2]
        while isinstance(t, tuple) and t[0] == 'un' and t[1] == 'Not':
            t = t[2]
        if isinstance(t, tuple) and t[0] == 'call' and t[1].endswith('::contains') and len(t[2]) == 2 and show(t[2][1]) == x \
                and isinstance(t[2][0], tuple) and t[2][0][0] == 'field' and t[2][0][2] == ufield:
            return '%s is %s' % (show(atoms[-1][0])[:80], atoms[-1][1])
        return None

    def deletes(w):
        return [(show(e['args'][0]).split('.')[-1], show(e['args'][1])) for e in w.trace
                if e['kind'] == 'call' and e['callee'].endswith('::delete')]
    n_del = 0
    stray = set()
    for kind, ufield in sorted(kinds.items()):
        short = kind.split('::')[-1]
        coll = kind_coll.get(kind)
        x = 'id(elem(iter(m.%s)))' % coll
        swept = kept = 0
        why = None
        for w in ws:
            c = conds(w)
            ds = deletes(w)
            has = (coll, x) in ds
            if (ufield, x) in c:
                if c[(ufield, x)] is False:
                    if has:
                        swept += 1
                    elif w.outcome == 'return':
                        why = 'an item of m.%s that is not in used.%s survives' % (coll, ufield)
                    elif w.outcome == 'pruned' and pruned_right_after(w, ufield, x):
                        # known to be unused, and then filtered out of the sweep by a further condition
                        why = 'an item of m.%s that is not in used.%s is skipped by the sweep when %s' % (coll, ufield, pruned_right_after(w, ufield, x))
                else:
                    if has:
                        why = 'an item of m.%s that is in used.%s is deleted' % (coll, ufield)
                    else:
                        kept += 1
            elif has:
                other = [f for (f, xx), v in c.items() if xx == x]
                why = 'items of m.%s are deleted %s' % (coll, ('by looking at used.%s' % other[0]) if other else 'without consulting used.' + ufield)
            elif w.outcome == 'return':
                # the pass completed without ever asking whether this kind's items are used: the sweep is conditional
                why = 'the sweep of m.%s is skipped on some path (used.%s never consulted)' % (coll, ufield)
        if why is None and swept and kept:
            res.ok('sweep/' + short, {'kind': short, 'used_field': ufield, 'deleted_iff_absent': True, 'worlds': swept + kept})
        else:
            res.bad('sweep/' + short, 'gc::run does not sweep %s items against used.%s: %s'
                    % (short, ufield, why or 'no path deletes id(elem(m.%s)) exactly when used.%s lacks it (%d/%d)' % (coll, ufield, swept, kept)))
    # nothing else is deleted
    legit = set((kind_coll.get(k), 'id(elem(iter(m.%s)))' % kind_coll.get(k)) for k in kinds) | {('imports', 'id(elem(iter(m.imports)))')}
    for w in ws:
        for d in deletes(w):
            if d not in legit:
                stray.add(d)
    if stray:
        res.bad('sweep/stray-delete', 'gc::run also deletes %s' % sorted(stray)[:3])
    else:
        res.ok('sweep/only-the-complement', {'delete_targets': len(legit)})
    # imports
    ik = F.adt('module::imports::ImportKind')
    ix = 'id(elem(iter(m.imports)))'
    for var in ik['variants']:
        vn = var['name']
        m = re.search(r'id_arena::Id<([^>]+)>', var['fields'][0]['ty'])
        kind = m.group(1) if m else None
        uf = kinds.get(kind)
        payload = 'elem(iter(m.imports)).kind.%s.0' % vn
        seen = {True: None, False: None}
        wrong = None
        for w in ws:
            v = [vv[2] for k, vv in w.assumptions if isinstance(vv, tuple) and vv and vv[0] == 'ctor' and vv[1] == 'module::imports::ImportKind']
            if v != [vn]:
                continue
            c = conds(w)
            mine = [(f, val) for (f, xx), val in c.items() if xx == payload]
            if not mine:
                if ('imports', ix) in deletes(w):
                    wrong = 'nothing'
                continue
            for f, val in mine:
                if f != uf:
                    wrong = 'used.' + f
                deleted = ('imports', ix) in deletes(w)
                if seen[val] is None or w.outcome == 'return':
                    seen[val] = deleted if seen[val] in (None, deleted) else 'both'
        if wrong:
            res.bad('imports/' + vn, 'an imported %s is swept against %s instead of used.%s' % (vn, wrong, uf))
        elif seen[True] is False and seen[False] is True:
            res.ok('imports/' + vn, {'import_kind': vn, 'deleted_iff_not_in': 'used.' + str(uf)})
        else:
            res.bad('imports/' + vn, 'imports of kind %s are not deleted exactly when their %s is unused (%s)' % (vn, vn.lower(), seen))
    res.exhaustive = True
    return res
