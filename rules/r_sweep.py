"""R-SWEEP: passes::gc::run deletes exactly the complement of the used set.

 * every kind tracked by `Used` is swept: there is a delete loop over the arena of
   that kind, fed by `unused(&used.<field of that kind>, <ids of that same arena>)`,
   in every world (the sweep does not depend on anything else);
 * the helper `unused` returns exactly the ids that the set does not contain;
 * imports are swept by the kind they import: an import is deleted iff the used set
   of its payload's kind does not contain the payload id."""
import re
from registry import RuleResult
from heval import Evaluator, Policy, EvalError, sym, show
from r_edges import used_kinds

RUN = 'passes::gc::run'


def coll_kinds(F):
    """Module field name -> entity kind stored in that collection"""
    out = {}
    m = F.adt('module::Module')
    for fd in m['variants'][0]['fields']:
        w = F.adt(fd['ty'])
        if not w:
            continue
        for f2 in w['variants'][0]['fields']:
            mm = re.match(r'^(tombstone_arena::TombstoneArena|arena_set::ArenaSet)<(.+)>$', f2['ty'])
            if mm and f2['name'] == 'arena':
                out[fd['name']] = mm.group(2)
    return out


def run(ctx):
    F = ctx.F
    res = RuleResult('R-SWEEP', 'gc::run sweeps every tracked kind against its used set; imports by the kind they import')
    res.floor = 12
    kinds = used_kinds(F)
    if not kinds or RUN not in F.hir:
        res.error('anchor lost: passes::gc::run / Used')
        return res
    ck = coll_kinds(F)
    pol = Policy(effects=lambda p: not p.startswith('std::') and not p.startswith('log::'), inline=lambda p: False)
    try:
        ws = Evaluator(F, pol).run_fn(RUN, [sym('m')])
    except EvalError as e:
        res.error('gc::run not analysable: %s' % e)
        return res
    rx = re.compile(r'^elem\(unused\(new\(m\)\.(\w+), seq\[id\(elem\(iter\(m\.(\w+)\)\)\) \| iter\(m\.(\w+)\)\]\)\)$')
    for kind, ufield in sorted(kinds.items()):
        short = kind.split('::')[-1]
        n_ok = 0
        why = None
        for w in ws:
            found = False
            for e in w.trace:
                if e['kind'] == 'call' and e['callee'].endswith('::delete') and 'ModuleImports' not in e['callee']:
                    m = rx.match(show(e['args'][1]))
                    if not m:
                        continue
                    uf, c1, c2 = m.groups()
                    if uf != ufield:
                        continue
                    coll = show(e['args'][0]).split('.')[-1]
                    if c1 == c2 == coll and ck.get(coll) == kind:
                        found = True
                    else:
                        why = 'used.%s is swept against m.%s / deletes from m.%s' % (uf, c1, coll)
            if found:
                n_ok += 1
        if n_ok == len(ws):
            res.ok('sweep/' + short, {'kind': short, 'used_field': ufield, 'worlds': n_ok})
        else:
            res.bad('sweep/' + short, 'gc::run does not sweep %s items against used.%s in every case (%s)'
                    % (short, ufield, why or '%d of %d worlds' % (n_ok, len(ws))))
    # helper
    try:
        uw = Evaluator(F, Policy(effects=[r'Vec::push$', r'HashSet::contains$'])).run_fn('passes::gc::unused', [sym('used'), sym('all')])
        good = True
        saw_push = False
        for w in uw:
            atoms = {show(k[1]): v for k, v in w.assumptions if isinstance(k, tuple) and k[0] == 'atom'}
            cont = [v for k, v in atoms.items() if k.startswith('contains(used')]
            pushes = [e for e in w.trace if e['kind'] == 'call' and e['callee'].endswith('Vec::push')]
            # the evaluator models `unused.push` on the local list directly; read the returned value
            ret = w.value
            n = 0
            if isinstance(ret, tuple) and ret[0] in ('seq', 'list'):
                n = 1 if ret[0] == 'seq' else len(ret[1])
            has = bool(pushes) or n > 0
            if cont:
                if has == cont[0]:
                    good = False
                if has:
                    saw_push = True
        if good and saw_push:
            res.ok('sweep/helper-unused', {'unused': 'returns the ids for which used.contains(id) is false'})
        else:
            res.bad('sweep/helper-unused', '`unused` does not return exactly the ids missing from the used set')
    except (EvalError, KeyError) as e:
        res.error('gc::unused not analysable: %s' % e)
    # imports
    ik = F.adt('module::imports::ImportKind')
    for var in ik['variants']:
        vn = var['name']
        m = re.search(r'id_arena::Id<([^>]+)>', var['fields'][0]['ty'])
        kind = m.group(1) if m else None
        uf = kinds.get(kind)
        seen = {True: None, False: None}
        wrong = None
        for w in ws:
            v = [vv[2] for k, vv in w.assumptions if isinstance(vv, tuple) and vv and vv[0] == 'ctor' and vv[1] == 'module::imports::ImportKind']
            if v != [vn]:
                continue
            for k, val in w.assumptions:
                if isinstance(k, tuple) and k[0] == 'atom' and show(k[1]).startswith('contains(new(m).'):
                    field = show(k[1]).split('contains(new(m).')[1].split(',')[0]
                    if field != uf:
                        wrong = field
                    deleted = any(e['kind'] == 'call' and e['callee'].endswith('ModuleImports::delete') for e in w.trace)
                    seen[val] = deleted
        if wrong:
            res.bad('imports/' + vn, 'an imported %s is swept against used.%s instead of used.%s' % (vn, wrong, uf))
        elif seen[True] is False and seen[False] is True:
            res.ok('imports/' + vn, {'import_kind': vn, 'deleted_iff_not_in': 'used.' + str(uf)})
        else:
            res.bad('imports/' + vn, 'imports of kind %s are not deleted exactly when their %s is unused (%s)' % (vn, vn.lower(), seen))
    res.exhaustive = True
    return res
