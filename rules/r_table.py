"""R-TABLE: decode (append_instruction) composed with encode (Emit::visit_instr)
is the identity on every operator and every immediate.

For every variant of wasmparser::Operator (enumerated from the type-checked
program) the decode match is evaluated on a symbolic operator, the IR terms it
allocates are pushed through the encode match, and the resulting
wasm_encoder::Instruction term is compared with what wasm-encoder's own
reencode table prescribes for that operator (same variant; every field fed by
the corresponding field; indices through the index space the oracle names)."""
from registry import RuleResult
from heval import (Evaluator, Policy, EvalError, sym, lit, ctor, show, norm_path, cfield, NONE, subterms, syms_of)
import oracle
from r_features import feature_sets

OP = 'wasmparser::Operator'
INSTR = 'wasm_encoder::Instruction'
EMIT = 'module::functions::local_function::emit::Emit'
AI = 'module::functions::local_function::append_instruction'

STRUCTURED = {'Block', 'Loop', 'If', 'Else', 'End'}
BRANCHES = {'Br', 'BrIf', 'BrTable'}

SPACE_OF_GET = {'get_func': 'function', 'get_table': 'table', 'get_type': 'type', 'get_global': 'global',
                'get_memory': 'memory', 'get_data': 'data', 'get_element': 'element', 'get_local': 'local'}
SPACE_OF_IDX = {'get_func_index': 'function', 'get_table_index': 'table', 'get_type_index': 'type',
                'get_global_index': 'global', 'get_memory_index': 'memory', 'get_data_index': 'data',
                'get_element_index': 'element'}

INT_W = {'u8': (8, False), 'u16': (16, False), 'u32': (32, False), 'u64': (64, False), 'u128': (128, False),
         'usize': (64, False), 'i8': (8, True), 'i16': (16, True), 'i32': (32, True), 'i64': (64, True),
         'i128': (128, True), 'isize': (64, True)}


def cast_lossless(frm, to):
    if frm == to:
        return True
    if frm not in INT_W or to not in INT_W:
        return False
    fb, fs = INT_W[frm]
    tb, ts = INT_W[to]
    if fs == ts:
        return tb >= fb
    if not fs and ts:
        return tb > fb
    return False


def cast_bijective_same_width(frm, to):
    return frm in INT_W and to in INT_W and INT_W[frm][0] == INT_W[to][0]


def is_le_assembly(t):
    """t == OR_i ((bytes[i] as u128) << 8*i), i = 0..15, each byte once -> returns the bytes term"""
    parts = []

    def flat(x):
        if x[0] == 'bin' and x[1] == 'BitOr':
            flat(x[2])
            flat(x[3])
        else:
            parts.append(x)
    flat(t)
    if len(parts) != 16:
        return None
    seen = {}
    src = None
    for p in parts:
        sh = 0
        if p[0] == 'bin' and p[1] == 'Shl':
            if p[3][0] != 'lit':
                return None
            sh = p[3][1]
            p = p[2]
        if p[0] != 'cast' or p[2] != 'u8' or p[3] != 'u128':
            return None
        ix = p[1]
        if ix[0] != 'call' or ix[1] != 'index' or ix[2][1][0] != 'lit':
            return None
        i = ix[2][1][1]
        if sh != 8 * i or i in seen:
            return None
        seen[i] = True
        if src is None:
            src = ix[2][0]
        elif src != ix[2][0]:
            return None
    return src if len(seen) == 16 else None


class Canon:
    """Rewrites evaluator terms into a small semantic vocabulary."""

    def __init__(self, res_notes):
        self.problems = []

    def canon(self, t):
        if not isinstance(t, tuple) or not t:
            return t
        k = t[0]
        if k == 'ok':
            return self.canon(t[1])
        if k == 'call':
            name = t[1]
            last = name.split('::')[-1]
            args = t[2]
            if name.startswith('parse::IndicesToIds::') and last in SPACE_OF_GET:
                return ('id', SPACE_OF_GET[last], self.canon(args[-1]))
            if name.startswith('emit::IdsToIndices::') and last in SPACE_OF_IDX:
                inner = self.canon(args[-1])
                sp = SPACE_OF_IDX[last]
                if inner[0] == 'id':
                    if inner[1] == sp:
                        return ('rt', sp, inner[2])
                    self.problems.append('index space mismatch: id taken from the %s space, index looked up in the %s space'
                                         % (inner[1], sp))
                    return ('rt-mismatch', inner[1], sp, inner[2])
                return ('idx', sp, inner)
            if name == 'index' and len(args) == 2 and args[0] == sym('local_indices'):
                inner = self.canon(args[1])
                if inner[0] == 'id' and inner[1] == 'local':
                    return ('rt', 'local', inner[2])
                if inner[0] == 'id':
                    self.problems.append('local index looked up with an id of the %s space' % inner[1])
                return ('idx', 'local', inner)
            if name == 'from_bits' and len(args) == 1:
                a = self.canon(args[0])
                return ('from_bits', a)
            if last == 'from_le_bytes' and len(args) == 1 and 'u128' in t[1]:
                # u128::from_le_bytes(bytes) is the little-endian assembly of the 16 bytes
                return ('le_u128', self.canon(args[0]))
            return ('call', name, tuple(self.canon(a) for a in args))
        if k == 'cast':
            inner = self.canon(t[1])
            frm, to = t[2], t[3]
            if cast_lossless(frm, to):
                return inner
            if cast_bijective_same_width(frm, to):
                return ('reinterpret', frm, to, inner)
            self.problems.append('narrowing or lossy cast %s -> %s on %s' % (frm, to, show(t[1])))
            return ('narrow', frm, to, inner)
        if k == 'ctor':
            return ('ctor', t[1], t[2], tuple(sorted((f, self.canon(v)) for f, v in t[3])))
        if k in ('tup', 'list'):
            return (k, tuple(self.canon(x) for x in t[1]))
        if k == 'field':
            return ('field', self.canon(t[1]), t[2])
        if k == 'bin':
            le = is_le_assembly(t)
            if le is not None:
                return ('le_u128', self.canon(le))
            return ('bin', t[1], self.canon(t[2]), self.canon(t[3]))
        if k == 'un':
            return ('un', t[1], self.canon(t[2]))
        if k == 'seq':
            return ('seq', self.canon(t[1]), self.canon(t[2]))
        if k == 'elem':
            return ('elem', self.canon(t[1]))
        return t


def operator_inputs(var, otypes):
    """list of (label, inst-term) instantiations of one operator"""
    fields = var['fields']
    memarg_fields = [f for f in fields if f['ty'].endswith('MemArg')]
    base = [(f['name'], sym(f['name'], f['ty'])) for f in fields]
    if not memarg_fields:
        return [('', ctor(OP, var['name'], base))]
    out = []
    for n in range(0, 8):
        fl = []
        for f in fields:
            if f['ty'].endswith('MemArg'):
                ma = ctor('wasmparser::MemArg', 'MemArg', [
                    ('align', lit(n, 'u8')), ('max_align', sym('max_align', 'u8')),
                    ('offset', sym('offset', 'u64')), ('memory', sym('memory', 'u32'))])
                fl.append((f['name'], ma))
            else:
                fl.append((f['name'], sym(f['name'], f['ty'])))
        out.append(('align=%d' % n, ctor(OP, var['name'], fl)))
    return out


def expected_field(kind, fname, label):
    if kind in ('function', 'table', 'type', 'global', 'memory', 'data', 'element'):
        return ('rt', kind, sym(fname))
    if kind == 'identity':
        if fname == 'local_index':
            return ('rt', 'local', sym(fname))
        return sym(fname)
    if kind == 'mem_arg':
        n = int(label.split('=')[1])
        return ('ctor', 'wasm_encoder::MemArg', 'MemArg', tuple(sorted([
            ('align', lit(n, 'u32')), ('memory_index', ('rt', 'memory', sym('memory'))), ('offset', sym('offset'))])))
    return None


def strip_tys(t):
    """drop type annotations of syms/lits so that expected and actual compare structurally"""
    if not isinstance(t, tuple) or not t:
        return t
    if t[0] == 'sym':
        return ('sym', t[1])
    if t[0] == 'lit':
        return ('lit', t[1])
    return tuple(strip_tys(x) if isinstance(x, tuple) else x for x in t)


def assumption_text(asm):
    out = []
    for k, v in asm:
        if isinstance(k, tuple) and k and k[0] == 'atom':
            out.append('%s=%s' % (show(k[1]), v))
        else:
            out.append('%s:=%s' % (show(k), show(v) if isinstance(v, tuple) else v))
    return ', '.join(out)


def run(ctx):
    F = ctx.F
    res = RuleResult('R-TABLE', 'decode(append_instruction) o encode(Emit::visit_instr) = identity, per operator and immediate')
    res.floor = 500
    try:
        ops_oracle = oracle.operators('/repo' if not hasattr(ctx, 'repo') else ctx.repo)
        fmap, special = oracle.translate_table('/repo')
        stable, unstable_only, _, _ = feature_sets(F)
    except Exception as e:
        res.error('oracle/feature extraction failed: %r' % (e,))
        return res
    enabled = {x for x in (stable | unstable_only)}
    oracle_by_name = {n: (prop, fl) for prop, n, fl in ops_oracle}
    variants = F.variants(OP)
    if variants is None or AI not in F.hir:
        res.error('anchor lost: wasmparser::Operator or append_instruction not found')
        return res
    if {v['name'] for v in variants} != set(oracle_by_name):
        res.error('oracle mismatch: for_each_operator! and the Operator enum disagree')
        return res
    vis = [p for p in F.hir if p.endswith('::visit_instr') and 'emit::Emit' in p]
    if len(vis) != 1:
        res.error('anchor lost: Emit::visit_instr')
        return res
    VI = vis[0]

    def is_enabled(prop):
        return prop == 'mvp' or prop.upper() in enabled

    def stub_params(st, args, node):
        return ('call', 'types.params', (args[1],))

    dec_pol = Policy(
        effects=[r'ValidationContext::(alloc_instr|alloc_instr_in_control|unreachable|push_control|pop_control|control|push_control_with_ty)$'],
        inline=lambda p: not (p.startswith('parse::IndicesToIds') or p.startswith('emit::IdsToIndices')))
    enc_pol = Policy(
        effects=[r'wasm_encoder::Function::instruction$'],
        inline=lambda p: not (p.startswith('parse::IndicesToIds') or p.startswith('emit::IdsToIndices')))
    dec = Evaluator(F, dec_pol)
    enc = Evaluator(F, enc_pol)
    import flowlib
    _, emit_self, _unk = flowlib.emit_self(F)
    n_enabled = n_disabled = 0
    elided = []
    res.pending = {}     # (name, slotkey, msg) -> {'labels': set, 'detail':..}
    res.memarg_ops = set()
    for var in variants:
        name = var['name']
        prop, ofields = oracle_by_name[name]
        en = is_enabled(prop)
        if name in STRUCTURED or name in BRANCHES:
            continue  # handled by r_control
        if not en:
            # disabled proposal: the validator rejects the operator before append_instruction sees it
            n_disabled += 1
            continue
        n_enabled += 1
        for label, inst in operator_inputs(var, ofields):
            key = name + ('/' + label if label else '')
            try:
                worlds = dec.run_fn(AI, [sym('ctx'), inst, sym('loc')])
            except EvalError as e:
                res.error('decode of %s not analysable: %s' % (key, e))
                continue
            for w in worlds:
                wkey = key
                atxt = assumption_text(w.assumptions)
                if w.outcome == 'panic':
                    if infeasible_under_features(name, w, enabled):
                        res.ok(wkey + '/rejected-by-validator', nontrivial=False)
                        continue
                    pend(res, name, 'decode-panic' + ('/' + world_tag(w, None) if world_tag(w, None) else ''),
                         'operator %s of an enabled proposal (%s) reaches a panic in append_instruction [%s] (line %s)'
                         % (name, prop, atxt, w.notes[-1][2] if w.notes else '?'), label, None)
                    res.obligations += 1
                    continue
                allocs = [e for e in w.trace if e['callee'].endswith('alloc_instr') or e['callee'].endswith('alloc_instr_in_control')]
                if not allocs:
                    elided.append(name)
                    if name != 'Nop':
                        pend(res, name, 'elided', 'operator %s produces no IR instruction (only nop may be dropped)' % name, label, None)
                        res.obligations += 1
                    else:
                        res.ok(wkey + '/elided-nop', {'operator': name, 'ir': None})
                    continue
                if len(allocs) != 1:
                    pend(res, name, 'multi', 'operator %s allocates %d IR instructions' % (name, len(allocs)), label, None)
                    res.obligations += 1
                    continue
                ir = allocs[0]['args'][-2]
                if ir[0] != 'ctor':
                    res.error('IR term of %s not a constructor: %s' % (key, show(ir)))
                    continue
                instr = ctor('ir::Instr', ir[2], [('0', ir)])
                try:
                    ew = enc.run_fn(VI, [emit_self, instr, sym('loc')])
                except EvalError as e:
                    res.error('encode of %s (%s) not analysable: %s' % (key, show(ir), e))
                    continue
                for w2 in ew:
                    a2 = assumption_text(w.assumptions + w2.assumptions)
                    sub = wkey + ('/' + world_tag(w, w2) if world_tag(w, w2) else '')
                    if w2.outcome != 'return':
                        pend(res, name, 'encode-panic', 'IR %s (from %s) reaches a panic in Emit::visit_instr [%s]'
                             % (show(strip_memarg(ir)), name, a2), label, None)
                        res.obligations += 1
                        continue
                    outs = [x for x in w2.trace if x['callee'].endswith('::instruction')]
                    if len(outs) != 1:
                        pend(res, name, 'encode-count', 'IR %s is encoded as %d instructions'
                             % (show(strip_memarg(ir)), len(outs)), label, None)
                        res.obligations += 1
                        continue
                    out = outs[0]['args'][1]
                    compare(res, sub, name, ofields, label, w, w2, ir, out, fmap, special, enabled)
    flush_pending(res)
    res.note('%d operators of enabled proposals analysed, %d of disabled proposals skipped (validator rejects them), '
             'structured control and branches are decided by R-CONTROL' % (n_enabled, n_disabled))
    res.exhaustive = True
    return res


def strip_memarg(ir):
    """IR term with the (enumerated) memarg replaced by a placeholder, so messages do not depend on the label"""
    if isinstance(ir, tuple) and ir and ir[0] == 'ctor':
        return ('ctor', ir[1], ir[2], tuple((f, (('sym', 'memarg', '') if f == 'arg' else strip_memarg(v))) for f, v in ir[3]))
    return ir


def world_tag(w, w2):
    parts = []
    for k, v in list(w.assumptions) + list(w2.assumptions if w2 is not None else []):
        if isinstance(v, tuple) and v and v[0] == 'ctor':
            parts.append(v[2])
        elif isinstance(k, tuple) and k and k[0] == 'atom':
            parts.append(('' if v else '!') + show(k[1]))
    return ','.join(parts)


GC_HEAP = {'Any', 'None', 'NoExtern', 'NoFunc', 'Eq', 'Struct', 'Array', 'I31'}
EXN_HEAP = {'Exn', 'NoExn'}


def infeasible_under_features(name, w, enabled):
    """panic worlds that the validator excludes, re-derived from the enabled feature set"""
    for k, v in w.assumptions:
        if isinstance(v, tuple) and v and v[0] == 'ctor':
            if v[1] == 'wasmparser::HeapType' and v[2] == 'Concrete' and 'FUNCTION_REFERENCES' not in enabled \
                    and 'GC' not in enabled:
                return True
            if v[1] == 'wasmparser::AbstractHeapType':
                if v[2] in GC_HEAP and 'GC' not in enabled:
                    return True
                if v[2] in EXN_HEAP and 'EXCEPTIONS' not in enabled and 'LEGACY_EXCEPTIONS' not in enabled:
                    return True
        if isinstance(k, tuple) and k and k[0] == 'atom':
            # "ref type is neither FUNCREF nor EXTERNREF"
            pass
    # ValType::Ref(x) with x neither EXTERNREF nor FUNCREF
    falses = [show(k[1]) for k, v in w.assumptions if isinstance(k, tuple) and k[0] == 'atom' and v is False]
    if any('EXTERNREF' in f for f in falses) and any('FUNCREF' in f for f in falses) \
            and 'FUNCTION_REFERENCES' not in enabled and 'GC' not in enabled:
        return True
    return False


def compare(res, key, name, ofields, label, w, w2, ir, out, fmap, special, enabled):
    c = Canon(res)
    got = c.canon(out)
    if got[0] != 'ctor' or got[1] != INSTR:
        res.error('%s: encoded value is not an Instruction: %s' % (key, show(out)))
        return
    sample = {'operator': name + ('[' + label + ']' if label else ''), 'ir': show(ir), 'instruction': show(out)}
    if got[2] != name:
        pend(res, name, 'opcode', 'operator %s is re-emitted as %s (IR %s)' % (name, got[2], show(strip_memarg(ir))), label, sample)
        res.obligations += 1
        return
    # expected fields
    exp_fields = []
    problems = list(c.problems)
    fnames = [f for f, _ in ofields]
    if name in ('F32Const', 'F64Const'):
        exp = {'0': ('from_bits', ('call', 'wasmparser::Ieee%s::bits' % name[1:3], (sym('value'),)))}
    elif name == 'V128Const':
        exp = {'0': ('reinterpret', 'u128', 'i128', ('le_u128', ('call', 'wasmparser::V128::bytes', (sym('value'),))))}
    elif len(fnames) == 0:
        exp = {}
    else:
        exp = {}
        for f, fty in ofields:
            kind = fmap.get(f)
            slot = '0' if len(fnames) == 1 else f
            if kind in ('val_type', 'heap_type'):
                exp[slot] = ('same-name', kind)
            else:
                e = expected_field(kind, f, label)
                if e is None:
                    res.error('%s: no oracle mapping for field %s (%s)' % (key, f, kind))
                    return
                exp[slot] = e
    got_fields = dict(got[3])
    if set(got_fields) != set(exp):
        pend(res, name, 'shape', 'instruction %s has fields %s, oracle expects %s' % (name, sorted(got_fields), sorted(exp)),
             label, sample)
        res.obligations += 1
        return
    okk = True
    for slot, e in exp.items():
        g = got_fields[slot]
        if isinstance(e, tuple) and e and e[0] == 'same-name':
            r = same_name_type(g, w, w2, e[1], enabled)
            if r is not True:
                pend(res, name, slot + '/' + world_tag(w, w2), 'operand %s of %s: %s' % (slot, name, r), label, sample)
                okk = False
            continue
        if strip_tys(g) == strip_tys(e):
            continue
        okk = False
        if e[0] == 'ctor' and e[1] == 'wasm_encoder::MemArg' and g[0] == 'ctor' and g[1] == e[1]:
            res.memarg_ops.add(name)
            gf, ef = dict(g[3]), dict(e[3])
            for sub in sorted(set(gf) | set(ef)):
                if strip_tys(gf.get(sub)) != strip_tys(ef.get(sub)):
                    msg = 'memarg.%s: expected %s, got %s' % (sub, show_c(ef.get(sub)), show_c(gf.get(sub)))
                    if sub == 'align':
                        msg = 'memarg.align: log2(alignment) is not preserved'
                    pend(res, name, 'memarg.' + sub, msg, label, sample)
            continue
        why = 'expected %s, got %s' % (show_c(e), show_c(g))
        pend(res, name, slot, 'immediate %s of %s is not preserved: %s' % (slot, name, why), label, sample)
    if e_is_memarg(exp):
        res.memarg_ops.add(name)
    if okk:
        res.ok(key, sample)
    else:
        res.obligations += 1


def e_is_memarg(exp):
    return any(isinstance(e, tuple) and e and e[0] == 'ctor' and e[1] == 'wasm_encoder::MemArg' for e in exp.values())


def pend(res, name, slot, msg, label, sample):
    d = res.pending.setdefault((name, slot, msg), {'labels': [], 'detail': sample})
    if label and label not in d['labels']:
        d['labels'].append(label)


def flush_pending(res):
    # a problem that shows up identically on *every* memarg operator lives in the shared
    # converter pair (closure mem_arg / Emit::memarg) and is reported once
    by_sig = {}
    for (name, slot, msg), d in res.pending.items():
        by_sig.setdefault((slot, msg), []).append((name, d))
    for (slot, msg), lst in sorted(by_sig.items()):
        names = {n for n, _ in lst}
        if slot.startswith('memarg.') and names == res.memarg_ops and len(names) > 3:
            o = res.obligations
            res.bad('shared-memarg/' + slot + '/' + short_sig(msg),
                    '%s (on all %d memarg operators: the shared conversion mem_arg / Emit::memarg)' % (msg, len(names)),
                    detail={'operators': sorted(names)[:8], 'example': lst[0][1]['detail']})
            res.obligations = o
        else:
            for name, d in lst:
                lab = (' [' + ','.join(d['labels']) + ']') if d['labels'] else ''
                o = res.obligations
                res.bad(name + '/' + slot + '/' + short_sig(msg), msg + lab, detail=d['detail'])
                res.obligations = o


def short_sig(msg):
    import re
    m = re.search(r'\((\w+)->(\w+)\)|as (\w+)->(\w+)', msg)
    if 'as ' in msg and '->' in msg:
        mm = re.search(r'as (\w+)->(\w+)', msg)
        if mm:
            return 'cast-%s-%s' % (mm.group(1), mm.group(2))
    if 'index-of' in msg:
        return 'index-space'
    return 'mismatch'


def show_c(t):
    if not isinstance(t, tuple) or not t:
        return repr(t)
    if t[0] == 'rt':
        return '%s-index-of(%s-id-of(%s))' % (t[1], t[1], show_c(t[2]))
    if t[0] == 'rt-mismatch':
        return '%s-index-of(%s-id-of(%s))' % (t[2], t[1], show_c(t[3]))
    if t[0] in ('narrow', 'reinterpret'):
        return '(%s as %s->%s)' % (show_c(t[3]), t[1], t[2])
    if t[0] in ('id', 'idx'):
        return '%s-%s(%s)' % (t[1], t[0], show_c(t[2]))
    if t[0] == 'from_bits':
        return 'from_bits(%s)' % show_c(t[1])
    if t[0] == 'le_u128':
        return 'le_u128(%s)' % show_c(t[1])
    if t[0] == 'ctor':
        return t[2] + '{' + ', '.join('%s: %s' % (f, show_c(v)) for f, v in t[3]) + '}'
    return show(t)


def same_name_type(g, w, w2, kind, enabled):
    """value/heap types: decode and encode are enum->enum tables; the world's assumptions say which input
    variant we are in; the output must be the same-named variant"""
    # collect the input variant chain from the assumptions on wasmparser enums / consts
    names_in = []
    for k, v in w.assumptions:
        if isinstance(v, tuple) and v and v[0] == 'ctor' and v[1].startswith('wasmparser::'):
            names_in.append(v[2])
        if isinstance(k, tuple) and k and k[0] == 'atom' and v is True:
            t = k[1]
            if t[0] == 'bin' and t[1] == 'Eq' and t[3][0] == 'call' and t[3][1].startswith('wasmparser::'):
                names_in.append(t[3][1].split('::')[-1])
    names_out = []

    def walk(t):
        if isinstance(t, tuple) and t:
            if t[0] == 'ctor' and t[1].startswith('wasm_encoder::'):
                names_out.append(t[2])
                for f, v in t[3]:
                    if f == 'shared':
                        if v != ('lit', False, 'bool') and v != ('lit', False):
                            names_out.append('shared?')
                        continue
                    walk(v)
            elif t[0] == 'call' and t[1].startswith('wasm_encoder::'):
                names_out.append(t[1].split('::')[-1])
            else:
                for x in t[1:]:
                    if isinstance(x, tuple):
                        walk(x)
    walk(g)
    norm = lambda s: s.upper().replace('REF', '')
    a = [norm(x) for x in names_in if x not in ('Abstract',)]
    b = [norm(x) for x in names_out if x not in ('Abstract',)]
    if a and a == b:
        return True
    # heap type: Abstract{ty: Func} -> names ['Abstract','Func']
    if a and b and a[-1] == b[-1] and len(a) == len(b):
        return True
    return 'input %s is re-emitted as %s' % (names_in, names_out)
