"""R-VALIDATE: nothing from the input is interpreted before wasmparser's validator
accepted it, and unsupported constructs surface as Err, not as a panic.

 (v1) Module::parse is evaluated with nothing inlined; the payload match splits
      into one world per wasmparser::Payload variant.  In each world, every
      in-crate handler that receives data bound by the payload pattern must be
      preceded, inside the same loop iteration, by a wasmparser::Validator call
      on that data whose result went through `?`.  Custom sections (no validator
      exists for them) must not be able to fail the parse: the handlers' results
      are only logged.  Unsupported payloads end in `Err`, never in a panic.
 (v2) LocalFunction::parse: per operator, validator.op(pos, &inst)? precedes
      append_instruction(ctx, inst, ..) on the same `inst`; validator.finish()? follows the loop.
 (v3) parse_local_functions: every locals group goes through
      validator.define_locals(pos, count, ty)? before a local is created, on every path
      of the iteration that continues parsing."""
import re
from registry import RuleResult
from heval import local_policy, Evaluator, Policy, EvalError, sym, show, syms_of, subterms

MP = 'module::Module::parse'
LFP = 'module::functions::local_function::LocalFunction::parse'
PLF = 'parse_local_functions'

NOPOL = Policy(effects=lambda p: not p.startswith('std::') and not p.startswith('log::') and not p.startswith('anyhow::'),
               inline=lambda p: False)

# payloads for which wasmparser offers no per-section validation call
NO_VALIDATOR = {'CustomSection'}
UNSUPPORTED_OK = {'ModuleSection', 'InstanceSection', 'CoreTypeSection', 'ComponentSection', 'ComponentInstanceSection',
                  'ComponentAliasSection', 'ComponentTypeSection', 'ComponentCanonicalSection', 'ComponentStartSection',
                  'ComponentImportSection', 'ComponentExportSection', 'TagSection'}


def payload_variant(w):
    for k, v in w.assumptions:
        if isinstance(v, tuple) and v and v[0] == 'ctor' and v[1] == 'wasmparser::Payload':
            return v[2], v
    return None, None


def mentions(t, roots):
    s = show(t)
    return any(r in s for r in roots)


def run(ctx):
    F = ctx.F
    res = RuleResult('R-VALIDATE', 'validation precedes interpretation; unsupported input is an Err, not a panic')
    res.floor = 25
    try:
        v1(F, res)
        v2(F, res)
        v3(F, res)
        v4(F, res)
        v5(F, res)
    except EvalError as e:
        res.error('not analysable: %s' % e)
    return res


def v1(F, res):
    if MP not in F.hir:
        res.error('anchor lost: Module::parse')
        return
    ws = Evaluator(F, local_policy(F, MP, public_events=True)).run_fn(MP, [sym('wasm'), sym('config')])
    pv = F.adt('wasmparser::Payload')
    all_variants = [v['name'] for v in pv['variants']] if pv else []
    seen = {}
    for w in ws:
        name, val = payload_variant(w)
        if name is None:
            continue
        seen.setdefault(name, []).append(w)
    for name in all_variants:
        if name not in seen:
            res.bad('payload/%s/unhandled' % name, 'Module::parse has no analysable arm for Payload::%s' % name)
    for name, worlds in sorted(seen.items()):
        # payload-bound data: the fields of the variant value
        val = payload_variant(worlds[0])[1]
        roots = [show(t) for _, t in val[3]] or ['<none>']
        key = 'payload/' + name
        verdicts = set()
        detail = ''
        for w in worlds:
            inloop = [e for e in w.trace if e['loops'] and e['kind'] in ('call', 'try', 'try_fail', 'store')]
            # position of the first validated try
            validated_at = None
            vcall = None
            handler_before = None
            handlers = []
            for i, e in enumerate(inloop):
                if e['kind'] == 'call' and e['callee'].startswith('wasmparser::Validator::'):
                    if any(mentions(a, roots) for a in e['args'][1:]) or name in ('End',):
                        vcall = i
                if e['kind'] == 'try' and vcall is not None and validated_at is None:
                    t = e['args'][0]
                    if 'wasmparser::Validator' in repr(t) or show(t).startswith(inloop[vcall]['callee'].split('::')[-1]) \
                            or 'context(' in show(t) or inloop[vcall]['callee'].split('::')[-1] in show(t):
                        validated_at = i
                if e['kind'] in ('call', 'store') and not e['callee'].startswith('wasmparser::'):
                    uses = any(mentions(a, roots) for a in e['args'])
                    if uses:
                        handlers.append((i, e))
                        if validated_at is None and handler_before is None:
                            handler_before = e
            if w.outcome == 'panic':
                if name == 'UnknownSection' and vcall is not None:
                    verdicts.add('ok-unknown')   # Validator::unknown_section always returns Err: the arm cannot continue
                else:
                    verdicts.add('panic')
                    detail = 'panics (%s)' % (w.notes[-1][1] if w.notes else '?')
                continue
            if name in NO_VALIDATOR:
                # must not be able to fail the parse, and handler results must not be propagated
                hres_try = [e for e in inloop if e['kind'] == 'try' and any(h[1]['callee'].split('::')[-1] in show(e['args'][0])
                                                                           for h in handlers)]
                if hres_try:
                    verdicts.add('custom-fails')
                    detail = 'the result of %s is propagated with `?`: a malformed custom section would fail the parse' \
                        % show(hres_try[0]['args'][0])[:80]
                else:
                    verdicts.add('ok')
                continue
            if handler_before is not None:
                verdicts.add('unvalidated')
                detail = '%s receives payload data before a wasmparser::Validator call on it succeeded' \
                    % handler_before['callee'].split('::')[-1]
                continue
            if not handlers and name in UNSUPPORTED_OK:
                # unsupported: must return Err
                v = w.value
                if isinstance(v, tuple) and v and v[0] == 'ctor' and v[2] == 'Err':
                    verdicts.add('ok-err')
                else:
                    verdicts.add('unsupported-not-err')
                    detail = 'an unsupported payload does not end the parse with an error'
                continue
            if vcall is None and name not in ('Version',) and handlers:
                verdicts.add('unvalidated')
                detail = 'no validator call on the payload'
                continue
            if vcall is None and not handlers:
                verdicts.add('no-validator')
                detail = 'the payload is accepted without any validator call'
                continue
            verdicts.add('ok')
        bad = verdicts - {'ok', 'ok-err', 'ok-unknown'}
        if bad:
            res.bad(key + '/' + sorted(bad)[0], 'Payload::%s: %s' % (name, detail))
        else:
            res.ok(key, {'payload': name, 'worlds': len(worlds), 'verdict': sorted(verdicts)})
    # after the loop: local functions are parsed (with their own validators) before Ok
    post = [e['callee'].split('::')[-1] for e in ws[0].trace if e['kind'] == 'call' and not e['loops']]
    if 'parse_local_functions' in post:
        res.ok('post-loop/parse_local_functions', {'after_loop': [p for p in post if p.startswith('parse_') or p == 'add_processed_by']})
    else:
        res.bad('post-loop/parse_local_functions', 'function bodies are not parsed after the payload loop')


def v2(F, res):
    if LFP not in F.hir:
        res.error('anchor lost: LocalFunction::parse')
        return
    args = [sym(n) for n in ('module', 'indices', 'id', 'ty', 'args', 'body', 'on_instr_pos', 'validator')]
    ws = Evaluator(F, local_policy(F, LFP, public_events=True, events=[r'append_instruction$']), max_worlds=20000).run_fn(LFP, args)
    okk = 0
    for w in ws:
        if w.outcome != 'return':
            continue
        tr = [e for e in w.trace if e['kind'] in ('call', 'try')]
        ops = [i for i, e in enumerate(tr) if e['kind'] == 'call' and e['callee'].endswith('FuncValidator::op')]
        apps = [i for i, e in enumerate(tr) if e['kind'] == 'call' and e['callee'].endswith('append_instruction')]
        fins = [i for i, e in enumerate(tr) if e['kind'] == 'call' and e['callee'].endswith('FuncValidator::finish')]
        if not apps:
            continue
        good = True
        for a in apps:
            inst = tr[a]['args'][1]
            pre = [o for o in ops if o < a and tr[o]['args'][2] == inst and tr[o]['loops'] == tr[a]['loops']]
            tried = [i for i in range(len(tr)) if tr[i]['kind'] == 'try' and pre and pre[-1] < i < a
                     and 'op(' in show(tr[i]['args'][0])]
            if not pre or not tried:
                good = False
        if not fins or any(not (tr[f + 1]['kind'] == 'try' if f + 1 < len(tr) else False) for f in fins) or any(tr[f]['loops'] for f in fins):
            res.bad('function-body/finish', 'validator.finish()? must follow the operator loop of LocalFunction::parse')
        # the loop reads the body to its end: its only continuation condition is "the reader is not at eof", so that no
        # byte of the body escapes the validator (finish() only checks where the last `end` was)
        loops = set()
        for a in apps:
            for l in tr[a]['loops']:
                loops.add(l)
        conds = []
        asm = {show(k[1]): v for k, v in w.assumptions if isinstance(k, tuple) and k and k[0] == 'atom'}
        for l in loops:
            t = l
            if isinstance(t, tuple) and t[0] == 'call' and t[1] == 'while' and t[2]:
                t = t[2][0]
            if isinstance(t, tuple) and t[0] == 'call' and t[1] == 'cond' and t[2]:
                t = t[2][0]
            neg = False
            while isinstance(t, tuple) and t[0] == 'un' and t[1] == 'Not':
                t, neg = t[2], not neg
            st = show(t)
            # the body of the loop runs in worlds where the recorded condition atom has the value that keeps the loop going
            runs_when = asm.get(st)
            conds.append((st, (runs_when is False) != neg if runs_when is not None else neg))
        eof_ok = any(neg and re.match(r'^eof\(.*body.*\)$', c) for c, neg in conds)
        if not eof_ok:
            res.bad('function-body/reads-whole-body', 'the operator loop of LocalFunction::parse must run until the body reader is at eof '
                    '(loop condition: %s): bytes after the point where it stops are never decoded or validated'
                    % ['%s%s' % ('!' if n else '', c[:60]) for c, n in conds])
        else:
            res.ok('function-body/reads-whole-body', {'loop_condition': '!body.eof()'}, nontrivial=False)
        # operators that follow the `end` which closed the function body: the validator accepts them one by one (it reports
        # them from finish()), so the decoder itself must refuse to append once no control frame is left
        guard = any((re.search(r'is_empty\(.*controls', k) and v is False) or (re.search(r'len\(.*controls\) Eq 0', k) and v is False)
                    or (re.search(r'len\(.*controls\) (Gt|Ne) 0', k) and v is True)
                    or (re.search(r'^is_none\((last|first)\(.*controls', k) and v is False)
                    or (re.search(r'^is_some\((last|first)\(.*controls', k) and v is True) for k, v in asm.items())
        if guard:
            res.ok('function-body/frame-left-before-append', {'guard': 'control stack non-empty before append_instruction'}, nontrivial=False)
        else:
            res.bad('function-body/frame-left-before-append', 'LocalFunction::parse hands an operator to append_instruction without checking '
                    'that a control frame is left: `end` followed by e.g. `i32.const 0` passes validator.op() and then panics on the '
                    'empty control stack instead of being rejected')
        if good:
            okk += 1
        else:
            res.bad('function-body/op-before-append', 'append_instruction runs on an operator that validator.op() has not accepted '
                    '(missing, different operator, or result not propagated)')
    if okk:
        res.ok('function-body/op-before-append', {'worlds': okk, 'order': 'read_operator? -> validator.op(pos, &inst)? -> append_instruction'})
        res.ok('function-body/finish', {'after_loop': 'validator.finish(pos)?'}, nontrivial=False)
    elif not any('function-body' in v['key'] for v in res.violations):
        res.error('LocalFunction::parse: no analysable operator loop')


def v3(F, res):
    c = [p for p in F.hir if p.endswith('::' + PLF)]
    if len(c) != 1:
        res.error('anchor lost: parse_local_functions')
        return
    ws = Evaluator(F, local_policy(F, c[0], public_events=True)).run_fn(c[0], [sym('self'), sym('functions'), sym('indices'), sym('on_instr_pos')])
    n_ok = 0
    for w in ws:
        tr = [e for e in w.trace if e['kind'] in ('call', 'try', 'try_fail')]
        # iterations of the locals-group loop: effects whose innermost loop source is a Range ending in read_var_u32
        groups = [e for e in tr if e['loops'] and 'read_var_u32' in show(e['loops'][-1]) or
                  (len(e['loops']) >= 2 and 'read_var_u32' in show(e['loops'][-2]))]
        if not groups:
            continue
        began = any(e['kind'] == 'call' and e['callee'].endswith('BinaryReader::read') for e in groups)
        dl = [i for i, e in enumerate(groups) if e['kind'] == 'call' and e['callee'].endswith('define_locals')]
        adds = [i for i, e in enumerate(groups) if e['kind'] == 'call' and (e['callee'].endswith('ModuleLocals::add') or e['callee'].endswith('push_local'))]
        is_err = isinstance(w.value, tuple) and w.value and w.value[0] == 'ctor' and w.value[2] == 'Err'
        if w.outcome != 'return' or is_err:
            continue
        if began and not dl:
            res.bad('locals/define_locals-skipped', 'a locals group is accepted without validator.define_locals() having seen its '
                    'type (condition: %s)' % '; '.join('%s=%s' % (show(k[1]), v) for k, v in w.assumptions
                                                       if isinstance(k, tuple) and k[0] == 'atom')[:200])
            continue
        if dl:
            d = dl[0]
            tried = d + 1 < len(groups) and groups[d + 1]['kind'] == 'try'
            if not tried:
                res.bad('locals/define_locals-unchecked', 'the result of validator.define_locals() is not propagated')
                continue
            if any(a < d for a in adds):
                res.bad('locals/created-before-validation', 'locals are created before validator.define_locals() accepted the group')
                continue
            # arguments are the ones read in this iteration
            args = groups[d]['args']
            if not ('read_var_u32' in show(args[2]) and 'read(' in show(args[3])):
                res.bad('locals/define_locals-args', 'define_locals is not called with the (count, type) read from the body: %s'
                        % [show(a) for a in args[1:]])
                continue
            n_ok += 1
    if n_ok:
        res.ok('locals/define_locals', {'worlds': n_ok, 'order': 'read count, read type -> define_locals(pos, count, ty)? -> locals.add'})
    elif not any(v['key'].startswith(res.rule + ' / locals/') for v in res.violations):
        res.error('parse_local_functions: no analysable locals loop')


INSTRS_MUT = re.compile(r"&('\w+ )?mut (std::vec::Vec<\(ir::Instr, ir::InstrLocId\)[^>]*>|\[\(ir::Instr, ir::InstrLocId\)\])")
APPENDERS = {'push', 'reserve', 'reserve_exact', 'extend', 'extend_from_slice', 'push_within_capacity'}


def v4(F, res):
    """(v4) what the operator loop has appended stays appended: in every function the body parser can reach, the only
    thing done to a sequence's instruction list through a mutable reference is appending to it.  (The validator accepted
    the operators one by one in input order; an operator dropped, replaced or reordered afterwards is no longer the
    function that was validated.)"""
    from mirinline import callee_of
    seen, todo = set(), [LFP]
    while todo:
        p = todo.pop()
        if p in seen or p not in F.mir:
            continue
        seen.add(p)
        for q in F.mir:
            if q.startswith(p + '::{closure') and q not in seen:
                todo.append(q)
        for b in F.mir[p]['blocks']:
            t = b['term']
            if t.get('t') == 'Call':
                c = callee_of(t, F)
                if c and c not in seen:
                    todo.append(c)
    if len(seen) < 10:
        res.error('function-body/instrs-append-only: only %d functions reachable from LocalFunction::parse' % len(seen))
        return
    bad, n = [], 0
    for p in sorted(seen):
        body = F.mir[p]
        for b in body['blocks']:
            t = b['term']
            if t.get('t') == 'Call':
                k = (t.get('func') or {}).get('k') or {}
                ty = k.get('ty') or ''
                params = ty[ty.find('fn(') + 3:ty.rfind(') ')] if 'fn(' in ty else ''
                if not INSTRS_MUT.search(params) or k.get('rlocal'):
                    continue         # a local helper taking the list is itself in `seen`
                n += 1
                last = re.sub(r'<.*$', '', (k.get('resolved') or k.get('fn') or '').split('::')[-1])
                if last not in APPENDERS:
                    bad.append('%s calls %s on an instruction list' % (p.split('::')[-1], (k.get('fn') or '?').replace('std::vec::', '')))
            for st in b['stmts']:
                if st.get('s') == 'Assign':
                    pl = st.get('p') or []
                    if len(pl) > 1 and pl[-1] == '.instrs' and (st.get('r') or {}).get('rv') != 'Aggregate':
                        n += 1
                        bad.append('%s assigns a whole instruction list' % p.split('::')[-1])
    if bad:
        res.bad('function-body/instrs-append-only', 'while a function body is parsed, instructions already appended to a sequence must '
                'stay as validated: %s' % '; '.join(sorted(set(bad))[:4]))
    elif n == 0:
        res.error('function-body/instrs-append-only: no append site found among %d functions' % len(seen))
    else:
        res.ok('function-body/instrs-append-only', {'functions_reachable_from_body_parser': len(seen), 'mutable_uses_of_instr_lists': n,
                                                    'all': 'append'})


UNVALIDATED_INPUT = re.compile(r'wasmparser::Name<|wasmparser::NameSectionReader|wasmparser::ProducersField|wasmparser::ProducersSectionReader|RawCustomSection')
PANICKY = re.compile(r'^(core|std)::panicking::|::(unwrap|expect|unwrap_err|expect_err|unwrap_unchecked)$|^core::option::unwrap_failed|'
                     r'^core::result::unwrap_failed|^core::slice::index::|::copy_from_slice$|::split_at(_mut)?$|^std::process::(abort|exit)')
ARENA_HOME = ('tombstone_arena::', 'arena_set::')


def v5(F, res):
    """(v5) sections no validator looks at (name, producers, .debug*): the functions that interpret them cannot panic on
    what they read.  Every function reachable from such a handler is scanned for panic-capable sites: explicit panics,
    unwrap/expect, indexing of std collections (`map[&k]`, `v[i]`, bounds-check asserts), division.  The arenas' own
    by-id accessors are the one accepted class: the ids these handlers hold come out of the index maps filled while
    parsing, which only ever hold live ids (R-PUSHPAIR, R-ARENA)."""
    from mirinline import callee_of
    roots = set()
    if MP not in F.mir:
        res.error('anchor lost: Module::parse (MIR)')
        return
    # handlers anywhere below Module::parse (they may sit behind helpers that were split off): local functions that are
    # handed a reader / raw copy of a section for which wasmparser has no validation call
    below, todo = set(), [MP]
    while todo:
        q = todo.pop()
        if q in below or q not in F.mir:
            continue
        below.add(q)
        todo.extend(x for x in F.mir if x.startswith(q + '::{closure') and x not in below)
        for b in F.mir[q]['blocks']:
            t = b['term']
            if t.get('t') == 'Call':
                c = callee_of(t, F)
                if c and c not in below:
                    todo.append(c)
    for c in below:
        body = F.mir[c]
        n = body.get('arg_count') or 0
        sig = ' '.join(l.get('ty', '') for l in body['locals'][1:1 + n])
        if c != MP and '{closure' not in c and UNVALIDATED_INPUT.search(sig):
            if not any(h in c for h in ARENA_HOME) and 'ModuleCustomSections' not in c and 'RawCustomSection' not in c:
                roots.add(c)
    if len(roots) < 3:
        res.error('unvalidated-section handlers: only %d found (%s)' % (len(roots), sorted(roots)))
        return
    for root in sorted(roots):
        seen, todo = set(), [root]
        while todo:
            p = todo.pop()
            if p in seen or p not in F.mir:
                continue
            seen.add(p)
            todo.extend(q for q in F.mir if q.startswith(p + '::{closure') and q not in seen)
            for b in F.mir[p]['blocks']:
                t = b['term']
                if t.get('t') == 'Call':
                    c = callee_of(t, F)
                    if c and c not in seen:
                        todo.append(c)
        sites = []
        for p in sorted(seen):
            if any(h in p for h in ARENA_HOME):
                continue
            for b in F.mir[p]['blocks']:
                t = b['term']
                if t.get('t') == 'Call':
                    k = (t.get('func') or {}).get('k') or {}
                    if k.get('rlocal'):
                        continue
                    fn = norm_path_(k.get('resolved') or k.get('fn') or '')
                    ty = k.get('ty') or ''
                    if k.get('trait') in ('std::ops::Index', 'std::ops::IndexMut'):
                        recv = (k.get('gargs') or ['?'])[0]
                        if re.match(r'(id_arena::Arena|tombstone_arena::TombstoneArena|arena_set::ArenaSet)<', recv):
                            continue
                        sites.append('%s indexes a %s' % (p.split('::')[-1], re.sub(r'<.*$', '', recv)))
                    elif PANICKY.search(fn) and 'debug_assert' in str(t.get('mac') or ''):
                        pass        # a debug assertion: compiled out of release builds, states an invariant of the code
                    elif PANICKY.search(fn):
                        sites.append('%s calls %s' % (p.split('::')[-1], fn.split('::')[-1] if not fn.startswith('core::panicking') else 'panic!'))
                elif t.get('t') == 'Assert' and t.get('msg') in ('BoundsCheck', 'DivisionByZero', 'RemainderByZero'):
                    sites.append('%s has a %s' % (p.split('::')[-1], t.get('msg')))
        short = root.split('::')[-1]
        if sites:
            res.bad('unvalidated-section/no-panic/' + short, '%s interprets a custom section no validator has seen, and can panic on it: %s'
                    % (short, '; '.join(sorted(set(sites))[:4])))
        else:
            res.ok('unvalidated-section/no-panic/' + short, {'handler': short, 'functions_scanned': len(seen), 'panic_capable_sites': 0})


def norm_path_(p):
    from heval import norm_path
    return norm_path(p) or ''
