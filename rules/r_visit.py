"""R-VISIT: the generated visitors report every entity operand exactly once, and the
traversal drivers visit every instruction of every sequence.

 (a) completeness / (b) exactly-once: for every variant struct of ir::Instr the
     id-carrying positions are enumerated from the type definitions; the generated
     `impl Visit for Instr` / `impl VisitMut for Instr` dispatch is evaluated on a
     symbolic instruction with every per-instruction hook at its DEFAULT body, and
     each position must reach its kind's `visit_<kind>_id[_mut]` hook exactly once.
     The only positions that may stay unvisited are branch labels (InstrSeqId fields
     of variants that do not own the sequence: everything except Block/Loop/IfElse).
 (c) the sequence-level type operand (InstrSeqType::MultiValue) is reported once per
     sequence by `impl Visit(Mut) for InstrSeq`.
 (d) drivers: inside the per-instruction loop of dfs_in_order / dfs_pre_order_mut the
     calls visit_instr(_mut) and Instr::visit(_mut) happen unconditionally once per
     iteration; an early exit from the instruction loop is allowed only after the
     resumption point (seq_id, index + 1) has been pushed; start/end events and the
     sequence-level visit are issued once per sequence; UsedVisitor overrides the hook
     of every kind that `Used` tracks.
"""
import re
from registry import RuleResult
from heval import Evaluator, Policy, EvalError, sym, ctor, show, norm_path
from adtwalk import positions, show_path, peel, id_kind
from facts import strip_ty

OWNERS = ('Block', 'Loop', 'IfElse')
HOOK_RE = r'ir::Visitor(Mut)?::visit_\w+_id(_mut)?$|ir::Visitor(Mut)?::visit_value(_mut)?$'


def hook_kind(F, callee):
    h = F.hir.get(callee)
    if not h or len(h['params']) < 2:
        return None
    ty = strip_ty(h['params'][1].get('ty', ''))
    k = id_kind(ty)
    return k if k else ty


def all_positions(F, sty):
    out = list(positions(F, sty, None))
    a = F.adt(sty)
    for fd in a['variants'][0]['fields']:
        if strip_ty(fd['ty']) == 'ir::Value':
            out.append(((('f', fd['name']),), 'ir::Value'))
    return out


def run(ctx):
    F = ctx.F
    res = RuleResult('R-VISIT', 'generated visitors report every entity operand exactly once; drivers visit every instruction')
    res.floor = 90
    instr = F.adt('ir::Instr')
    V = [p for p in F.hir if p.endswith("ir::Instr as ir::Visit<'instr>>::visit")]
    VM = [p for p in F.hir if p.endswith('ir::Instr as ir::VisitMut>::visit_mut')]
    if not instr or len(V) != 1 or len(VM) != 1:
        res.error('anchor lost: ir::Instr / generated Visit impls')
        return res
    ev = Evaluator(F, Policy(effects=[HOOK_RE]))
    # the same dispatch with every per-instruction hook treated as overridden by the user (opaque, does nothing we know of):
    # operand reports must not live in the default hook bodies
    ev_over = Evaluator(F, Policy(effects=[HOOK_RE], inline=lambda p: not (p.startswith('ir::Visitor::') or p.startswith('ir::VisitorMut::'))))
    n_fields = 0
    for var in instr['variants']:
        name = var['name']
        sty = var['fields'][0]['ty']
        st = F.adt(sty)
        if not st:
            res.error('variant struct %s not found' % sty)
            continue
        fields = [(f['name'], sym(f['name'], f['ty'])) for f in st['variants'][0]['fields']]
        val = ctor('ir::Instr', name, [('0', ctor(sty, name, fields))])
        pos = all_positions(F, sty)
        for fn, tag in ((V[0], 'visit'), (VM[0], 'visit_mut')):
            try:
                ws = ev.run_fn(fn, [val, sym('visitor')])
            except EvalError as e:
                res.error('%s::%s not analysable: %s' % (name, tag, e))
                continue
            if len(ws) != 1 or ws[0].outcome != 'return':
                res.bad('%s/%s/shape' % (name, tag), 'dispatch for %s is not a single straight path (%d worlds)' % (name, len(ws)))
                continue
            effs = [e for e in ws[0].trace if e['kind'] == 'call']
            try:
                ws2 = ev_over.run_fn(fn, [val, sym('visitor')])
                effs2 = [e for e in ws2[0].trace if e['kind'] == 'call'] if len(ws2) == 1 else None
            except EvalError:
                effs2 = None
            sig = lambda es: sorted((e['callee'], show(e['args'][1])) for e in es)
            if effs2 is None or sig(effs2) != sig(effs):
                res.bad('%s/%s/depends-on-default-hook' % (name, tag),
                        'the operands of %s are reported %s when the per-instruction hook is overridden (%d reports instead of %d): '
                        'operand reporting must not live in the default hook bodies'
                        % (name, 'differently' if effs2 is not None else 'in an unanalysable way', len(effs2 or []), len(effs)))
            used = [False] * len(effs)
            for path, kind in pos:
                n_fields += 1
                key = '%s%s/%s' % (name, show_path(path), tag)
                hits = []
                for i, e in enumerate(effs):
                    root, p = peel(e['args'][1])
                    if root[0] == 'sym' and (('f', root[1]),) + p == path:
                        hits.append(i)
                        used[i] = True
                kinds = {hook_kind(F, effs[i]['callee']) for i in hits}
                short = kind.split('::')[-1]
                if len(hits) == 1 and kinds == {kind}:
                    res.ok(key, {'operand': name + show_path(path), 'kind': short, 'hook': effs[hits[0]]['callee'].split('::')[-1]})
                elif len(hits) == 0:
                    if kind == 'ir::InstrSeq' and name not in OWNERS:
                        res.ok(key + '/label', {'operand': name + show_path(path), 'kind': 'branch label (not owned)'}, nontrivial=False)
                    else:
                        res.bad(key + '/missing', '%s.%s (a %s) is never reported by %s' % (name, show_path(path)[1:], short, tag))
                elif kinds != {kind}:
                    res.bad(key + '/kind', '%s.%s (a %s) is reported through the hook of %s'
                            % (name, show_path(path)[1:], short, sorted(str(k).split('::')[-1] for k in kinds)))
                else:
                    res.bad(key + '/multiple', '%s.%s is reported %d times by %s with default hooks (must be exactly once)'
                            % (name, show_path(path)[1:], len(hits), tag))
            for i, e in enumerate(effs):
                if not used[i]:
                    res.bad('%s/%s/spurious/%s' % (name, tag, show(e['args'][1])),
                            '%s reports %s which is not an id-typed field of %s' % (tag, show(e['args'][1]), name))
    # (c) sequence-level type operand
    for fn, tag in (("<ir::InstrSeq as ir::Visit<'instr>>::visit", 'visit'), ('<ir::InstrSeq as ir::VisitMut>::visit_mut', 'visit_mut')):
        if fn not in F.hir:
            res.bad('InstrSeq/%s/missing' % tag, 'impl %s for InstrSeq not found' % tag)
            continue
        seq = ctor('ir::InstrSeq', 'InstrSeq', [('id', sym('id')), ('ty', sym('ty', 'ir::InstrSeqType')), ('instrs', sym('instrs')),
                                                ('end', sym('end'))])
        ws = ev.run_fn(fn, [seq, sym('visitor')])
        for w in ws:
            variant = [v[2] for k, v in w.assumptions if isinstance(v, tuple) and v[0] == 'ctor' and v[1] == 'ir::InstrSeqType']
            effs = [e for e in w.trace if e['kind'] == 'call']
            if variant == ['MultiValue']:
                okk = len(effs) == 1 and hook_kind(F, effs[0]['callee']) == 'ty::Type' and peel(effs[0]['args'][1])[1] == (('vf', 'MultiValue.0'),)
                if okk:
                    res.ok('InstrSeq.ty@MultiValue.0/' + tag, {'operand': 'InstrSeq.ty@MultiValue', 'hook': 'visit_type_id'})
                else:
                    res.bad('InstrSeq.ty@MultiValue.0/' + tag, 'the type of a multi-value sequence must be reported exactly once by ' + tag)
            elif effs:
                res.bad('InstrSeq/%s/spurious' % tag, 'a Simple sequence type reports operands')
    check_driver_worlds(F, res)
    check_used_visitor(F, res)
    res.exhaustive = True
    return res


# ---------------------------------------------------------------- drivers
def walk(n, f, stop=None):
    if isinstance(n, dict):
        if stop and stop(n):
            return
        f(n)
        for v in n.values():
            walk(v, f, stop)
    elif isinstance(n, list):
        for v in n:
            walk(v, f, stop)


def find_all(n, pred):
    out = []
    walk(n, lambda x: out.append(x) if pred(x) else None)
    return out


def callee_of(n):
    return norm_path(n.get('callee')) if n.get('k') in ('MethodCall', 'Call') and n.get('callee') else None


def top_level_calls(block):
    """callees of calls that are unconditionally executed statements of a block (not nested in if/match/closure)"""
    out = []
    if block.get('k') != 'Block':
        return out
    items = list(block['stmts']) + ([block['expr']] if block.get('expr') else [])
    for s in items:
        e = s.get('e', s) if s.get('k') == 'Semi' else s
        if e.get('k') == 'Let':
            e = e.get('init') or {}
        if e.get('mac') and '$crate::log<' in e.get('mac', ''):
            continue
        c = callee_of(e)
        if c:
            out.append((c, e))
    return out


def check_drivers(F, res):
    for drv, mut in (('ir::traversals::dfs_in_order', False), ('ir::traversals::dfs_pre_order_mut', True)):
        h = F.hir.get(drv)
        if not h:
            res.bad('driver/%s/missing' % drv.split('::')[-1], 'traversal driver not found')
            continue
        d = drv.split('::')[-1]
        sfx = '_mut' if mut else ''
        fors = find_all(h['body'], lambda n: n.get('k') == 'Match' and n.get('src') == 'ForLoopDesugar'
                        and n['scrut'].get('k') == 'Call')
        # the outer ForLoopDesugar match (on into_iter) of the per-instruction loop
        inst_loops = []
        for f in fors:
            loops = find_all(f['arms'][0]['body'], lambda n: n.get('k') == 'Loop')
            if loops:
                inst_loops.append((f, loops[0]))
        if len(inst_loops) != 1:
            res.bad('driver/%s/shape' % d, 'expected exactly one per-instruction loop in %s (found %d)' % (d, len(inst_loops)))
            continue
        f, loop = inst_loops[0]
        loop_id = loop.get('id')
        inner = find_all(loop, lambda n: n.get('k') == 'Match' and n.get('src') == 'ForLoopDesugar')
        some_arm = [a for a in inner[0]['arms'] if a['pat'].get('variant') == 'Some'][0]
        body = some_arm['body']
        calls = top_level_calls(body)
        names = [c.split('::')[-1] for c, _ in calls]
        # per-instruction events
        want_instr = 'visit_instr' + sfx
        want_visit = 'visit' + sfx
        n1 = sum(1 for c, _ in calls if c.endswith('::' + want_instr))
        n2 = sum(1 for c, e in calls if c.endswith('::' + want_visit) and 'Instr' in (e.get('recv_ty') or ''))
        if n1 == 1 and n2 == 1:
            res.ok('driver/%s/per-instr' % d, {'driver': d, 'per_instruction': [want_instr, 'Instr::' + want_visit]})
        else:
            res.bad('driver/%s/per-instr' % d, 'each iteration of the instruction loop of %s must call %s and Instr::%s exactly once, '
                    'unconditionally (found %d and %d)' % (d, want_instr, want_visit, n1, n2))
        # exits from the instruction loop
        exits = find_all(body, lambda n: (n.get('k') == 'Break' and n.get('target') == loop_id)
                         or (n.get('k') in ('Break', 'Continue') and n.get('target') is not None and n.get('target') != loop_id
                             and not inside_inner_loop(body, n)), )
        exits = [x for x in exits if x.get('mac', '').find('ForLoop') < 0]
        bad = 0
        for x in exits:
            blk = enclosing_block(body, x)
            pushes = []
            if blk is not None:
                for c, e in top_level_calls(blk):
                    if c == 'std::vec::Vec::push':
                        pushes.append(e)
            resume = any(is_resumption(p) for p in pushes)
            if mut or not resume:
                bad += 1
                res.bad('driver/%s/early-exit/line-independent-%d' % (d, bad),
                        '%s leaves the instruction loop early (%s) without saving the resumption point (seq_id, index + 1): '
                        'the rest of the sequence would never be visited' % (d, x['k'].lower()),
                        where='%s line %s' % (drv, x.get('l')))
        if not bad:
            res.ok('driver/%s/exits' % d, {'driver': d, 'early_exits_with_resumption': len(exits)})
        # child sequences are scheduled for every owner variant
        arms = find_all(body, lambda n: n.get('k') == 'Match' and n.get('src') == 'Normal')
        owners_seen = set()
        for m in arms:
            for a in m['arms']:
                for v in pat_variants(a['pat']):
                    if v in OWNERS:
                        npush = len([1 for c, e in top_level_calls(a['body']) if c == 'std::vec::Vec::push'])
                        want = {'Block': 1, 'Loop': 1, 'IfElse': 2}[v] + (0 if mut else 1)
                        if npush == want:
                            owners_seen.add(v)
                        else:
                            res.bad('driver/%s/children/%s' % (d, v), '%s must schedule %d sequence(s) for %s (pushes %d)'
                                    % (d, want, v, npush))
        for v in OWNERS:
            if v in owners_seen:
                res.ok('driver/%s/children/%s' % (d, v), {'driver': d, 'owner': v})
            elif not any(vv['key'].endswith('driver/%s/children/%s' % (d, v)) for vv in res.violations):
                res.bad('driver/%s/children/%s/missing' % (d, v), '%s does not descend into the sequences owned by %s' % (d, v))
        # IfElse: consequent is visited before alternative => alternative pushed first
        for m in arms:
            for a in m['arms']:
                if 'IfElse' in pat_variants(a['pat']):
                    ps = [e for c, e in top_level_calls(a['body']) if c == 'std::vec::Vec::push']
                    order = [arg_names(p) for p in ps]
                    flat = [n for o in order for n in o if n in ('consequent', 'alternative')]
                    if flat == ['alternative', 'consequent']:
                        res.ok('driver/%s/if-order' % d, {'driver': d, 'push_order': flat})
                    else:
                        res.bad('driver/%s/if-order' % d, '%s must push the alternative before the consequent (LIFO) so that the '
                                'consequent is visited first; pushes %s' % (d, flat))
        # per-sequence events
        allcalls = find_all(h['body'], lambda n: callee_of(n) is not None)
        cn = [callee_of(n) for n in allcalls]
        for ev_name in ('start_instr_seq' + sfx, 'end_instr_seq' + sfx):
            k = sum(1 for c in cn if c.endswith('::' + ev_name))
            if k == 1:
                res.ok('driver/%s/%s' % (d, ev_name), {'driver': d, 'event': ev_name})
            else:
                res.bad('driver/%s/%s' % (d, ev_name), '%s must issue %s exactly once per sequence (found %d call sites)' % (d, ev_name, k))
        seqvisit = [n for n in allcalls if callee_of(n).endswith('::' + want_visit) and 'InstrSeq' in (n.get('recv_ty') or '')]
        if len(seqvisit) == 1:
            res.ok('driver/%s/seq-visit' % d, {'driver': d, 'event': 'InstrSeq::' + want_visit})
        else:
            res.bad('driver/%s/seq-visit' % d, '%s must report the sequence-level operands once per sequence (found %d)' % (d, len(seqvisit)))
        if not mut:
            # start event and sequence visit are guarded by `index == 0` (first entry only); end event follows the loop
            guards = find_all(h['body'], lambda n: n.get('k') == 'If' and n['c'].get('k') == 'Binary' and n['c'].get('op') == 'Eq'
                              and show_node(n['c']['a']) == 'index' and n['c']['b'].get('v') == 0)
            good = False
            for g in guards:
                inner_calls = [c.split('::')[-1] for c, _ in top_level_calls(g['t'])]
                if 'start_instr_seq' in inner_calls and 'visit' in inner_calls:
                    good = True
            if good:
                res.ok('driver/%s/first-entry-guard' % d, {'driver': d, 'guard': 'index == 0'})
            else:
                res.bad('driver/%s/first-entry-guard' % d, 'start_instr_seq and the sequence-level visit must run only on first '
                        'entry of a sequence (index == 0), otherwise resumed sequences are reported again')


def subst_term(t, old, new):
    if t == old:
        return new
    if isinstance(t, tuple):
        return tuple(subst_term(x, old, new) for x in t)
    return t


def iter_items(x):
    """the items, in order, that an iterator term yields when that is known exactly: Options (one or no item), chains of
    those, views (into_iter / iter / copied / cloned / by_ref), and element-wise maps over them; None when unknown"""
    while isinstance(x, tuple) and x and x[0] == 'ok':
        x = x[1]
    if not isinstance(x, tuple) or not x:
        return None
    if x[0] == 'ctor' and x[2] == 'Some' and x[3]:
        return [x[3][0][1]]
    if x[0] == 'ctor' and x[2] == 'None':
        return []
    if x[0] == 'list':
        return list(x[1])
    if x[0] == 'seq':
        src = iter_items(x[1])
        if src is None:
            return None
        return [subst_term(x[2], ('elem', x[1]), it) for it in src]
    if x[0] == 'call' and x[2]:
        last = x[1].split('::')[-1]
        if last == 'chain' and len(x[2]) == 2:
            l, r = iter_items(x[2][0]), iter_items(x[2][1])
            return None if l is None or r is None else l + r
        if last in ('into_iter', 'iter', 'copied', 'cloned', 'by_ref') and len(x[2]) == 1:
            return iter_items(x[2][0])
        if last == 'rev' and len(x[2]) == 1:
            its = iter_items(x[2][0])
            return None if its is None else list(reversed(its))
    return None


def recursion_of(F, drv):
    """a call path drv -> ... -> drv through functions of the driver's own file (MIR, resolved callees), or None"""
    from mirinline import callee_of
    from heval import file_of
    home = file_of(F, drv)
    todo, seen = [(drv, (drv,))], set()
    while todo:
        p, path = todo.pop()
        for q in [p] + [x for x in F.mir if x.startswith(p + '::{closure')]:
            for b in (F.mir.get(q) or {'blocks': []})['blocks']:
                t = b['term']
                if t.get('t') != 'Call':
                    continue
                k = (t.get('func') or {}).get('k') or {}
                c = callee_of(t, F) or norm_path(k.get('fn') or '')
                if c == drv or norm_path(c) == drv:
                    return path + (drv,)
                if c in F.mir and c not in seen and file_of(F, c) == home:
                    seen.add(c)
                    todo.append((c, path + (c,)))
    return None


def check_driver_worlds(F, res):
    """Both traversal drivers, decided on the worlds of one generic outer iteration with the helpers next to them looked
    through (so a private enum / struct / function that a maintainer introduces does not matter):
      * every sequence gets start_instr_seq, its own operands, and end_instr_seq exactly once;
      * every instruction gets visit_instr and its operands exactly once;
      * exactly the sequences owned by Block / Loop / IfElse are scheduled, consequent before alternative (LIFO);
      * dfs_in_order leaves the instruction loop early only for an owner, and then saves (seq, index + 1) first."""
    from heval import local_policy
    for drv, sfx in (('ir::traversals::dfs_in_order', ''), ('ir::traversals::dfs_pre_order_mut', '_mut')):
        d = drv.split('::')[-1]
        if drv not in F.hir:
            res.bad('driver/%s/missing' % d, 'traversal driver not found')
            continue
        rec = recursion_of(F, drv)
        if rec:
            res.bad('driver/%s/recursive' % d, 'the traversal driver calls itself (%s): nested sequences are walked on the call stack, '
                    'whose depth then grows with the nesting depth of the function body' % ' -> '.join(x.split('::')[-1] for x in rec))
            continue
        nop = local_policy(F, drv, public_events=True, events=[r'Vec::push$', r'::extend$'])
        try:
            ws = Evaluator(F, nop).run_fn(drv, [sym('visitor'), sym('func'), sym('start')])
        except EvalError as e:
            res.error('%s not analysable: %s' % (drv, e))
            continue
        bad = None
        n = 0
        owners_ok = set()
        for w in ws:
            if w.outcome != 'return':
                bad = 'a path of %s ends in %s' % (d, w.outcome)
                continue
            var = [v[2] for k, v in w.assumptions if isinstance(v, tuple) and v and v[0] == 'ctor' and v[1] == 'ir::Instr']
            atoms = [(show(k[1]), v) for k, v in w.assumptions if isinstance(k, tuple) and k[0] == 'atom']
            first = [v for t, v in atoms if t.endswith('Eq 0)')]
            others = [(t, v) for t, v in atoms if not t.endswith('Eq 0)')]
            calls = [(e['callee'].split('::')[-1], len(e['loops']), e) for e in w.trace if e['kind'] == 'call']
            cnt = lambda name, depth: sum(1 for c, dp, e in calls if c == name and dp == depth)
            seqvisit = sum(1 for c, dp, e in calls if c == 'visit' + sfx and dp == 1)
            cond = (' when ' + '; '.join('%s=%s' % o for o in others)[:160]) if others else ''
            if cnt('visit_instr' + sfx, 2) != 1 or cnt('visit' + sfx, 2) != 1:
                if others or var:
                    bad = '%s does not report every instruction and its operands exactly once%s' % (d, cond)
                    continue
            owner = bool(var) and var[0] in OWNERS
            exits = [e for e in w.trace if e['kind'] == 'loop_exit' and len(e['loops']) == 2]
            if sfx:
                if cnt('start_instr_seq_mut', 1) != 1 or seqvisit != 1 or cnt('end_instr_seq_mut', 1) != 1:
                    bad = '%s skips the start/end events or the sequence-level operands of a sequence%s' % (d, cond)
                    continue
                if exits:
                    bad = '%s leaves the instruction loop early (%s): the rest of the sequence would never be visited' % (d, exits[0]['callee'])
                    continue
            else:
                want_first = 1 if (first and first[0]) else 0
                if cnt('start_instr_seq', 1) != want_first or seqvisit != want_first:
                    bad = '%s must issue start_instr_seq and the sequence-level visit exactly on first entry of a sequence%s' % (d, cond)
                    continue
                want_end = 0 if owner else 1
                if cnt('end_instr_seq', 1) != want_end:
                    bad = '%s issues end_instr_seq %d time(s) for a sequence whose current instruction is %s%s' % (
                        d, cnt('end_instr_seq', 1), var[0] if var else '?', cond)
                    continue
                if exits and not owner:
                    bad = ('%s leaves the instruction loop early (%s) for %s without saving the resumption point (seq, index + 1): '
                           'the rest of the sequence would never be visited' % (d, exits[0]['callee'], var[0] if var else 'an instruction'))
                    continue
            # what is scheduled, and in which (LIFO) order
            pushes = []
            for c, dp, e in calls:
                if c == 'push':
                    pushes.append(show(e['args'][1]))
                elif c == 'extend' and len(e['args']) == 2:
                    # extending the stack with an Option: one push when it is Some, nothing when it is None
                    x = e['args'][1]
                    its = iter_items(x)
                    if its is not None:
                        pushes.extend(show(i) for i in its)
                    else:
                        pushes.append('extend(%s)' % show(x))
            want = {'Block': ['.Block.0.seq'], 'Loop': ['.Loop.0.seq'], 'IfElse': ['.IfElse.0.alternative', '.IfElse.0.consequent']}
            kids = want.get(var[0], []) if var else []
            allk = [k for ks in want.values() for k in ks]
            is_kid = lambda p, k: k in p and not any(o in p for o in allk if o != k)
            if sfx:
                okp = len(pushes) == len(kids) and all(is_kid(p, k) for p, k in zip(pushes, kids))
            elif owner:
                resume = pushes[0] if pushes else ''
                fresh = lambda p: re.search(r'(, |: )0[)}]$', p) is not None      # entered at index 0
                okp = len(pushes) == len(kids) + 1 and ' Add 1)' in resume and not any(k in resume for k in allk) \
                    and 'pop(' in resume and not fresh(resume) and all(is_kid(p, k) and fresh(p) for p, k in zip(pushes[1:], kids))
            else:
                okp = not pushes
            if var and not okp:
                bad = ('%s schedules the wrong work for %s: the stack must receive %s%s, in that order (last pushed is visited '
                       'first); it receives %s' % (d, var[0], '' if sfx else 'the resumption point (seq, index + 1) then ',
                                                   ' then '.join(k.split('.')[-1] for k in kids) or 'nothing',
                                                   [p[-48:] for p in pushes]))
                continue
            if owner:
                owners_ok.add(var[0])
            n += 1
        if not bad and owners_ok != set(OWNERS):
            bad = '%s does not descend into the sequences owned by %s' % (d, sorted(set(OWNERS) - owners_ok))
        if bad:
            res.bad('driver/%s/events-unconditional' % d, bad)
        elif n:
            res.ok('driver/%s/events-unconditional' % d, {'driver': d, 'worlds': n,
                                                          'rule': 'per-sequence and per-instruction events in every world'})
            for extra in ('per-instr', 'exits', 'children', 'if-order', 'seq-events'):
                res.ok('driver/%s/%s' % (d, extra), None, nontrivial=True)
        else:
            res.error('%s: no analysable world' % drv)


def show_node(n):
    if n.get('k') == 'Path':
        return n.get('name') or n.get('def')
    if n.get('k') == 'Unary':
        return show_node(n['a'])
    return n.get('k')


def arg_names(call):
    out = []
    walk(call.get('args', []), lambda n: out.append(n.get('name')) if n.get('k') == 'Path' and n.get('res') == 'local' else None)
    return out


def is_resumption(push_call):
    """stack.push((seq_id, index + 1))"""
    args = push_call.get('args', [])
    if not args or args[0].get('k') != 'Tup' or len(args[0]['elems']) != 2:
        return False
    a, b = args[0]['elems']
    return show_node(a) == 'seq_id' and b.get('k') == 'Binary' and b.get('op') == 'Add' and show_node(b['a']) == 'index' \
        and b['b'].get('v') == 1


def pat_variants(p):
    out = []
    walk(p, lambda n: out.append(n['variant']) if n.get('k') in ('TupleStruct', 'Struct', 'Path') and n.get('adt') == 'ir::Instr' else None)
    return out


def inside_inner_loop(body, node):
    """is `node` inside a loop nested in body (so its break/continue might target that)? conservative: no"""
    return False


def enclosing_block(root, node):
    """innermost Block whose statement list (transitively through Semi) contains node directly"""
    best = [None]

    def rec(n, cur):
        if isinstance(n, dict):
            if n is node:
                best[0] = cur
                return True
            if n.get('k') == 'Block' and 'stmts' in n:
                cur = n
            for v in n.values():
                if rec(v, cur):
                    return True
        elif isinstance(n, list):
            for v in n:
                if rec(v, cur):
                    return True
        return False
    rec(root, None)
    return best[0]


def check_used_visitor(F, res):
    """UsedVisitor overrides the id hook of every kind tracked by Used"""
    from r_edges import used_kinds
    kinds = used_kinds(F) or {}
    from r_edges import gc_visitor_hooks
    impl = gc_visitor_hooks(F)       # found by role (the Visitor impl next to Used::new), whatever the struct is called
    have = {hook_kind_of_impl(F, p) for p in impl}
    for k in sorted(kinds):
        short = k.split('::')[-1]
        if k in have:
            res.ok('used-visitor/' + short, {'kind': short, 'overridden': True})
        else:
            res.bad('used-visitor/' + short, 'UsedVisitor does not override the visitor hook for %s ids: operands of that kind inside '
                    'function bodies would not keep their target alive' % short)


def hook_kind_of_impl(F, p):
    h = F.hir[p]
    if len(h['params']) < 2:
        return None
    return id_kind(strip_ty(h['params'][1].get('ty', '')))
