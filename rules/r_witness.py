"""E3: compile-fail witnesses (thorough tier).  /verif/witness is a library crate that path-depends on
/repo; its doc-tests are `compile_fail,E0xxx` witnesses, each paired with a compiling twin.  A witness
that compiles means the type-level barrier it stands for is gone."""
import os
import re
import shutil
import subprocess
from registry import RuleResult


def run(ctx):
    res = RuleResult('E3-WITNESS', 'compile-fail witnesses: arena internals private, ids kind-typed, index maps read-only outside the crate')
    if ctx.tier != 'thorough' or ctx.config != 'default':
        res.floor = None
        res.note('witnesses run in the thorough tier only')
        return res
    res.floor = 10
    wdir = os.path.join(ctx.here, 'witness')
    repo = os.environ.get('VERIF_REPO', '/repo')
    try:
        shutil.copy(os.path.join(repo, 'Cargo.lock'), os.path.join(wdir, 'Cargo.lock'))
    except Exception:
        pass
    env = dict(os.environ, CARGO_NET_OFFLINE='true', CARGO_TARGET_DIR=os.path.join(ctx.here, '.cache', 'target-witness'))
    r = subprocess.run(['cargo', '+nightly', 'test', '--doc', '--offline'], cwd=wdir, env=env, capture_output=True, text=True)
    out = r.stdout + r.stderr
    tests = re.findall(r'^test src/lib\.rs - (\w+) \(line (\d+)\)( - compile fail)? \.\.\. (\w+)', out, re.M)
    if not tests:
        res.error('witness crate did not run: ' + out[-400:])
        return res
    for name, line, cf, status in tests:
        key = 'witness/%s/%s' % (name, 'compile_fail' if cf else 'twin')
        if status == 'ok':
            res.ok(key, {'witness': name, 'kind': 'must not compile' if cf else 'twin must compile'})
        elif cf:
            res.bad(key, 'the witness %s compiles: the barrier it documents (see witness/src/lib.rs) no longer exists' % name)
        else:
            res.error('the compiling twin of %s does not compile any more: the witness is no longer meaningful' % name)
    return res
