"""Property -> rules mapping, rule result type, shared context."""
import importlib


class Ctx:
    def __init__(self, facts, all_facts, config, tier, seed, prop, here):
        self.F = facts
        self.all_facts = all_facts
        self.config = config
        self.tier = tier
        self.seed = seed
        self.prop = prop
        self.here = here


class RuleResult:
    def __init__(self, rule, what=''):
        self.rule = rule
        self.what = what
        self.obligations = 0
        self.discharged = 0
        self.distinct = 0
        self.violations = []
        self.samples = []
        self.notes = []
        self.errors = []
        self.floor = None
        self.exhaustive = False
        self.config = None
        self._keys = set()

    def ok(self, key, sample=None, nontrivial=True):
        """one obligation analysed and discharged"""
        self.obligations += 1
        self.discharged += 1
        if nontrivial and key not in self._keys:
            self._keys.add(key)
            self.distinct += 1
        if sample is not None and len(self.samples) < 12:
            self.samples.append(sample)

    def bad(self, key, msg, where=None, detail=None, nontrivial=True):
        """one obligation analysed and violated; key must be stable (no line numbers)"""
        self.obligations += 1
        if nontrivial and key not in self._keys:
            self._keys.add(key)
            self.distinct += 1
        full = self.rule + ' / ' + key
        if any(v['key'] == full for v in self.violations):
            return
        self.violations.append({'key': full, 'msg': msg, 'where': where, 'detail': detail})

    def error(self, msg):
        self.errors.append(msg)

    def note(self, msg):
        self.notes.append(msg)


def load_rule(name):
    return importlib.import_module(name)


TRUSTED_BASE = [
    "rustc's name resolution, type checking and HIR/MIR construction (nightly 1.97) as dumped by the wlint driver",
    "wasmparser 0.214 / wasm-encoder 0.214 as pinned by Cargo.lock: same-named Operator/Instruction variants and fields "
    "denote the same wasm construct (the correspondence wasm-encoder's own reencode.rs compiles against)",
    "wasmparser's validator rejects what the spec rejects under the given feature set; wasm-encoder serialises an "
    "Instruction/section value faithfully",
    "id-arena is append-only; std collections behave as documented",
    "the term evaluator's model of std combinators (Option/Result/Iterator adaptors) listed in rules/heval.py",
]

# filled in below by the rule modules that exist
PROPERTIES = {}


def _p(pid, rules, explanation, not_decided='', **kw):
    d = {'rules': rules, 'explanation': explanation, 'not_decided': not_decided}
    d.update(kw)
    PROPERTIES[pid] = d


_p('C03', ['r_table'],
   'Static composition of the two hand-written instruction tables: for every variant of wasmparser::Operator '
   '(enumerated from the type-checked program, all immediates symbolic, alignment enumerated) the decode arm of '
   'append_instruction is evaluated to the IR term it allocates, that term is pushed through the encode arm of '
   'Emit::visit_instr, and the resulting wasm_encoder::Instruction term is compared with the correspondence that '
   "wasm-encoder's own reencode table prescribes (same opcode, every immediate fed by the same-named field, every "
   'index through the index space the oracle names, no narrowing cast on the way).',
   not_decided='that wasm-encoder serialises an Instruction value correctly (trusted)')
PROPERTIES['C03']['rules'] = ['r_table', 'r_control', 'r_validate', 'r_visit', 'r_pushpair']

_p('C06', ['r_edges', 'r_segments'],
   'The links the closure walks exist: every active element / data segment is registered on the table / memory it '
   'initialises when it is parsed (R-FLOW-SEG backlink obligations), whatever the table or memory looks like.  '
   'The GC closure is checked against the type definitions: every id-typed position (struct field, enum payload, '
   'collection element, const-expr operand) of every entity kind tracked by `Used` is enumerated from the resolved '
   'ADTs, each worklist loop of Used::new is evaluated symbolically, and the position must be pushed in every world '
   'compatible with the enum variants on its path; roots are compared with the documented list.',
   not_decided='behavioural equality of the collected module (execution)')

_p('C16', ['r_visit', 'r_norec'],
   'Generated visitors and traversal drivers: for each of the 51 instruction structs the id-typed fields are enumerated '
   'from the type definitions and the macro-generated Visit/VisitMut dispatch (as it appears after expansion, resolved) '
   'is evaluated with default hooks; every operand must reach the hook of its kind exactly once. The drivers are checked '
   'structurally: per-instruction events unconditional and once per iteration, early exits only after saving the '
   'resumption point, child sequences scheduled for every owner, start/end events once per sequence.',
   not_decided='program-order of events across nested sequences as a whole (argued from the resumption discipline, not '
               'executed); absence of recursion is decided by R-NOREC')
PROPERTIES['C06']['rules'] = ['r_edges', 'r_visit', 'r_segments', 'r_pushpair', 'r_sweep']

_p('C04', ['r_flow'],
   'Attribute flow through the entity records: each section parser and each section emitter is evaluated symbolically, '
   'the record allocated at parse time is substituted into the wasm-encoder value built at emit time, and every output '
   'field (limits, 64-bit/shared flags, page size, element/value types, mutability, module/field names, export kinds and '
   'indices) must be fed by the same-named input field per the field map of wasm-encoder\'s reencoder; every section '
   'entry must allocate exactly one record of its kind.',
   not_decided='byte equality of data payloads beyond "the same vector flows"; behaviour of wasm-encoder itself')

_p('C14', ['r_gates', 'r_features'],
   'Configuration switches: Module::emit_wasm is evaluated with nothing inlined, so every world is one combination of the '
   'boolean switches and its trace is the list of emit steps; name/producers/DWARF/code-transform steps must run exactly '
   'under their switch and every other step must be switch-independent. Setters are evaluated for polarity, '
   'ModuleProducers::field for replace-by-name, Module::parse (MIR) for a single non-loop add_processed_by and a single, '
   'last, non-loop on_parse call; the wasmparser feature set is extracted and compared with the property.',
   not_decided='that the bytes of the producers/name sections written by wasm-encoder are what the fields say (trusted)')

_p('C05', ['r_validate', 'r_features', 'r_table', 'r_norec', 'r_control'],
   'Validation gate: Module::parse, LocalFunction::parse and parse_local_functions are evaluated with nothing inlined; per '
   'wasmparser::Payload variant / per operator / per locals group the in-crate handler must be preceded by the matching '
   'wasmparser validator call on the same data with its error propagated; unsupported payloads must end in Err. '
   'Completeness side: the feature set is extracted and every operator of an enabled proposal must have a non-panicking '
   'decode arm (R-TABLE); no call cycle is reachable from parse (R-NOREC), so nesting depth cannot grow the call stack.',
   not_decided='termination / absence of hangs (bounded by input length, argued not checked); exactness of wasmparser itself; '
               'panics inside wasmparser/gimli')
_p('C02', ['r_emitorder', 'r_edges', 'r_visit', 'r_norec', 'r_segments', 'r_flow', 'r_table', 'r_control', 'r_pushpair', 'r_encform'],
   'Every emitted entity gets its index unconditionally (R-PUSHPAIR: one index per appended item; data indices assigned '
   'whether or not a DataCount section is written).  Validity is decided as preservation: the input was accepted by the validator (C05), so an output that is the input up to '
   'consistent renumbering is accepted too.  The type-carrying parts of that isomorphism are checked structurally: every '
   'operator is re-encoded as itself with its immediates (R-TABLE), block signatures and labels survive (R-CONTROL), every '
   'module-level record is re-emitted with its full type, element/data segments with their mode, element type and item '
   'encoding (R-FLOW, R-FLOW-SEG).  No referenced entity is left without an emitted index: emit steps are ordered so that every index space is assigned '
   'before it is looked up (R-EMITORDER, from the MIR of emit_wasm and the instance-level call graph); the GC closure '
   'follows every id-typed field (R-EDGES) and every instruction operand (R-VISIT), so whatever a kept item refers to is '
   'kept and therefore indexed; no recursion is reachable from emit (R-NOREC).',
   not_decided='acceptance of the output by an independent validator; panics behind API misuse (ids of deleted items)')

_p('C07', ['r_sweep', 'r_edges', 'r_entryty', 'r_segments', 'r_arena'],
   'Precision of the GC: gc::run is evaluated with nothing inlined and must sweep every kind tracked by `Used` against the '
   'used set of that kind, imports by the kind they import; the helper `unused` must return exactly the complement; '
   'Used::new may root only the documented categories and each worklist step may retain only what the popped entity '
   'refers to (no extra edges), apart from the documented first-memory residue after the fixpoint.',
   not_decided='idempotence as such (follows from closure + complement; not executed)')

_p('C17', ['r_arena'],
   'Identifier stability by construction: the tombstone set is append-only (no call in the crate removes from a place '
   'ending in `.dead`); every item-yielding or counting accessor of TombstoneArena consults it; delete marks exactly its '
   'argument; ArenaSet::remove clears the dedup entry from the live item before the tombstone clobbers the key and '
   'ArenaSet::insert allocates only on a miss; every Module* collection delegates delete/get to its arena with its own id. '
   'id-arena itself has no removal API (ids are never recycled).',
   not_decided='behaviour over concrete operation histories (not executed); iteration order is id-arena\'s (append order, trusted)')

_p('C18', ['r_effects', 'r_emitorder', 'r_pushpair'],
   'Effect analysis of the two replacement edits: each is evaluated with nothing inlined, so the trace of a successful world '
   'is the complete list of its effects on the module. replace_imported_func must return its own id, delete exactly the '
   'import found by get_imported_func(fid) (by id), store only funcs[fid].kind, and build with the (params, results) of '
   'the function\'s own type; replace_exported_func must add one function, retarget only the export found by '
   'get_exported_func(fid), delete nothing and leave the original untouched. Validity of the result rests on R-EMITORDER.',
   not_decided='that the user-supplied body is well typed; behaviour of callers at run time')

_p('C08', ['r_nondet', 'r_restore', 'r_emitorder', 'r_cache', 'r_gates', 'r_customs', 'r_encform'],
   'Sources of nondeterminism and of state change are excluded structurally: no iteration over a RandomState hash container '
   'anywhere in the crate; every IdHash iteration reachable from emit_wasm ends in an order-insensitive sink or is collected '
   'and sorted by a total key; emit_wasm restores every field it moves out of the module and all other access during emit is '
   'through a shared reference, so emitting alters nothing; emit steps form one fixed order; no field reachable from Module is '
   'interior-mutable (R-NOCACHE), so a shared reference really cannot record anything - a memoised value would have to be '
   'reset by every function that hands out mutable access next to it.',
   not_decided='byte equality after an extra parse/emit round trip (needs canonical-form reasoning about wasm-encoder and the '
               'parser; not claimed); determinism of wasm-encoder itself')
PROPERTIES['C04']['rules'] = ['r_flow', 'r_segments', 'r_pushpair', 'r_emitorder']

_p('C01', ['r_table', 'r_control', 'r_flow', 'r_segments', 'r_emitorder', 'r_validate', 'r_visit', 'r_pushpair'],
   'The four mechanisms the property names are decided structurally: (1) every cross reference is an arena id that is turned '
   'back into an index of the same index space (R-TABLE for operands, R-FLOW/R-FLOW-SEG for module-level records, segments, '
   'initialisers, start), with index spaces assigned before use in one fixed section order (R-EMITORDER); (2) branch labels '
   'and block signatures survive through the control-stack / block-stack correspondence (R-CONTROL); (3) function bodies and '
   'function indices follow the same ordering function; (4) only nop and syntactically dead code is elided (R-TABLE: exactly '
   'one IR node per operator except nop; R-CONTROL: br/br_table mark the rest unreachable, br_if does not).',
   not_decided='execution equivalence itself (results, traps, state are runtime values); this check decides the structural '
               'necessary conditions listed, not the behaviour')

_p('C19', ['r_pushpair', 'r_emitorder', 'r_flow', 'r_segments'],
   'Index maps: per section parser, every allocated entity is pushed exactly once, with its own id, into the index space of its '
   'kind (locals: per function, parameters first); per emitter, every appended item is assigned the next index of its kind in '
   'the same iteration; data segments are numbered by a running counter over the iterator ModuleData::emit walks; the '
   'emit-time map is handed to custom sections only after every standard section assigned its indices (R-EMITORDER); '
   'R-FLOW/R-FLOW-SEG show that lookups go through the space of the referenced kind.',
   not_decided='the numeric value of indices for a concrete module (follows from the pairing; not executed)')
_p('C20', ['r_encform', 'r_control', 'r_table', 'r_segments', 'r_validate', 'r_flow'],
   'No feature escalation: the DataCount section is emitted only for passive segments or memory.init/data.drop users '
   '(the accumulated flag must be is_passive() only); active element segments for table 0 use the MVP encoding; block types '
   'written in the compact form stay compact (R-CONTROL form obligations) and every operator is re-emitted as itself with its '
   'memory/table index preserved (R-TABLE), so no immediate or opcode of another proposal can appear.',
   not_decided='how wasm-encoder chooses encodings for a given Instruction/section value (trusted)')

_p('C12', ['r_customs', 'r_restore'],
   'Unknown custom sections: in the payload world where the name is not producers / name / .debug*, Module::parse adds exactly '
   'one RawCustomSection whose name and data are the payload\'s, unmodified; RawCustomSection::name/data return those fields; '
   'emit_wasm serialises every non-.debug section exactly once per loop iteration with (name(), data(indices)) and no other '
   'condition can suppress it; the loop walks the arena in creation order; emit_wasm puts `customs` back (R-RESTORE) so a '
   'second emit sees them; nothing reachable from gc::run mutates ModuleCustomSections.',
   not_decided='byte identity as written by wasm-encoder (trusted); custom sections implemented by users')

_p('C13', ['r_names', 'r_pushpair', 'r_effects'],
   'Name section: per wasmparser::Name subsection the index is resolved through the parse-time space of that kind and stored on '
   'the item of that collection (locals through get_local of the entry\'s function); per wasm-encoder subsection the entries '
   'are (get_<kind>_index(item.id), item.name) over the collection of that kind, sorted by index, subsections in '
   'wasm-encoder\'s order; R-DEFUSE: every index space a handler of Module::parse reads has been filled by then '
   '(ranks from wasmparser\'s section order; the locals space is filled after the payload loop); R-PUSHPAIR: the spaces '
   'themselves are filled in lock-step with the binary.',
   not_decided='names of label/field/tag subsections (documented as dropped); which of two merged identical types keeps its name')

_p('C15', ['r_builder', 'r_control', 'r_table', 'r_pushpair', 'r_sorted', 'r_visit'],
   'Builder fidelity: instr/instr_at act on the builder\'s own sequence at the requested position; each generated method is one '
   'instr/instr_at call with X{same-named fields}; block/loop_/if_else create fresh sequences, run the closures on them in '
   'order and name exactly those sequences; emission of the built tree uses the stack discipline and depth computation of '
   'R-CONTROL, the encode table of R-TABLE, the traversal order of R-VISIT, the local-slot numbering of R-PUSHPAIR (params '
   'first, one counter increment per used local) and no binary search over unsorted user vectors (R-SORTED).',
   not_decided='the in-order flattening of an arbitrary built tree as a whole (composition of the above; not executed); '
               'well-typedness of what the user builds')

_p('C09', ['r_par', 'r_nondet', 'r_arena'],
   'Both cargo configurations are analysed: the bodies whose callee multiset differs between the serial and the parallel build '
   'must be exactly the maybe_parallel! users (any other configuration-dependent code - e.g. a different sort - is reported); '
   'every into_par_iter pipeline is order-preserving adaptors + collect::<Vec<_>>, every unindexed par_iter pipeline ends in a '
   'commutative reduction; nothing reachable from the pipelines\' closures uses a synchronisation / interior-mutability API; '
   'R-NONDET (on both configurations) excludes hash-order dependence.',
   not_decided='rayon\'s own correctness (indexed collect preserves order: documented, trusted); behaviour under concrete schedules '
               'and thread counts (not executed)',
   needs_parallel=True)

_p('C11', ['r_offsets', 'r_sorted', 'r_gates', 'r_builder', 'r_emitorder'],
   'Code-offset map: offsets are recorded before the instruction / end / else is encoded; synthetic (default) locations are '
   'filtered and real ones rebased by the function start; everything ModuleFunctions::emit publishes in CodeTransform is a '
   'sum/difference of encoder measurements (no hand-computed LEB lengths, no integer literals), the tables that are binary '
   'searched are sorted on the searched key, apply_code_transform is gated by preserve_code_transform, and the builder attaches '
   'the default location to everything it creates.',
   not_decided='numeric equality of a concrete offset with the byte position in a concrete binary (follows from the provenance '
               'discipline; not executed)')
_p('C10', ['r_offsets', 'r_sorted', 'r_addr'],
   'A narrow, structural claim: every operator\'s input offset is recorded unconditionally at parse; output offsets are measured '
   'and rebased by code_section_start = start of the code section contents (measured, no constant); unconvertible addresses are '
   'tombstoned (DEAD_CODE) and 0/DEAD_CODE pass through; binary searches run over tables sorted on the searched key; an unsigned '
   'file index that is tested against 0 is not decremented where it can still be 0 (R-ZERODEC).',
   not_decided='row-by-row address exactness, range semantics and which search preference (inclusive/exclusive function end) is '
               'right for which attribute - DWARF semantics over concrete layouts, outside static reach (see DESIGN.md D10)')
PROPERTIES['C17']['rules'] = ['r_arena', 'r_witness']
PROPERTIES['C19']['rules'] = ['r_pushpair', 'r_emitorder', 'r_flow', 'r_segments', 'r_witness']
