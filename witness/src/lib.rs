//! Compile-fail witnesses (E3).  Each `compile_fail,E0xxx` doc-test is paired with a
//! compiling twin that differs only by the offending line, so a witness whose path is
//! merely wrong cannot pass.  Run with `cargo +nightly test --doc --offline` (the stable
//! toolchain ignores the error code).

/// C17 - arena internals are unreachable from outside the crate: the tombstone set and the
/// inner arena cannot be touched, so an identifier can only die through `delete`.
///
/// twin (compiles):
/// ```
/// let mut m = walrus::Module::default();
/// let t = m.tables.add_local(false, 1, None, walrus::RefType::Funcref);
/// m.tables.delete(t);
/// ```
/// witness:
/// ```compile_fail,E0616
/// let mut m = walrus::Module::default();
/// let t = m.tables.add_local(false, 1, None, walrus::RefType::Funcref);
/// let _ = &m.tables.arena; // private field
/// ```
pub struct ArenaIsPrivate;

/// C17 - identifiers are kind-typed: an id of one collection cannot be used on another.
///
/// twin (compiles):
/// ```
/// let mut m = walrus::Module::default();
/// let t = m.tables.add_local(false, 1, None, walrus::RefType::Funcref);
/// let _ = m.tables.get(t);
/// ```
/// witness:
/// ```compile_fail,E0308
/// let mut m = walrus::Module::default();
/// let t = m.tables.add_local(false, 1, None, walrus::RefType::Funcref);
/// let _ = m.memories.get(t); // TableId is not a MemoryId
/// ```
pub struct IdsAreKindTyped;

/// C17 - the tombstone arena type itself is not exported.
///
/// twin (compiles):
/// ```
/// let _m: walrus::ModuleTables = Default::default();
/// ```
/// witness:
/// ```compile_fail,E0603
/// let _a: walrus::tombstone_arena::TombstoneArena<walrus::Table> = Default::default(); // private module
/// ```
pub struct TombstoneArenaIsNotExported;

/// C19 - extension code can read the parse-time map but cannot write it.
///
/// twin (compiles):
/// ```
/// fn f(ids: &walrus::IndicesToIds) { let _ = ids.get_func(0); }
/// ```
/// witness:
/// ```compile_fail,E0624
/// fn f(ids: &mut walrus::IndicesToIds, id: walrus::FunctionId) { ids.push_func(id); } // pub(crate)
/// ```
pub struct ParseMapIsReadOnly;

/// C19 - extension code can read the emit-time map but cannot write it.
///
/// twin (compiles):
/// ```
/// fn f(ids: &walrus::IdsToIndices, id: walrus::FunctionId) { let _ = ids.get_func_index(id); }
/// ```
/// witness:
/// ```compile_fail,E0624
/// fn f(ids: &mut walrus::IdsToIndices, id: walrus::FunctionId) { ids.push_func(id); } // pub(crate)
/// ```
pub struct EmitMapIsReadOnly;

/// C19 - a custom section receives the emit-time map by shared reference only.
///
/// twin (compiles):
/// ```
/// use std::borrow::Cow;
/// #[derive(Debug)]
/// struct S;
/// impl walrus::CustomSection for S {
///     fn name(&self) -> &str { "s" }
///     fn data(&self, _ids: &walrus::IdsToIndices) -> Cow<[u8]> { Cow::Borrowed(&[]) }
/// }
/// ```
/// witness:
/// ```compile_fail,E0053
/// use std::borrow::Cow;
/// #[derive(Debug)]
/// struct S;
/// impl walrus::CustomSection for S {
///     fn name(&self) -> &str { "s" }
///     fn data(&self, _ids: &mut walrus::IdsToIndices) -> Cow<[u8]> { Cow::Borrowed(&[]) } // must be &IdsToIndices
/// }
/// ```
pub struct CustomSectionsGetSharedMap;
